#!/bin/bash
# ./run_all.sh [quick|thorough]: run every check registered in MANIFEST.json, then validate evidence.
cd "$(dirname "$0")"
T=${1:-quick}
rc=0
for id in $(python3 -c "import json;print(' '.join(c['property_id'] for c in json.load(open('MANIFEST.json'))['checks']))"); do
  out=$(./check $id $T 2>&1); r=$?
  echo "$id rc=$r $(echo "$out" | tail -1 | cut -c1-110)"
  echo "$out" | grep -E "^(VIOLATION|KNOWN-FINDING|INCONCLUSIVE)"
  [ $r -ne 0 ] && rc=1
done
./validate.sh || rc=1
exit $rc
