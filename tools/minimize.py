#!/usr/bin/env python3
"""Greedy op-list minimiser for replay files whose scenario has an 'ops' list (possibly nested one level)."""
import json,sys,subprocess,copy
pid, path = sys.argv[1], sys.argv[2]
d=json.load(open(path)); sc=d['scenario']
def find_ops(s):
    if isinstance(s,dict):
        if 'ops' in s: return s
        for v in s.values():
            r=find_ops(v)
            if r is not None: return r
    return None
holder=find_ops(sc)
def fails(s):
    json.dump({'scenario':s}, open('/tmp/min.json','w'))
    r=subprocess.run(['./check',pid,'--replay','/tmp/min.json'],capture_output=True,text=True)
    return r.returncode==1
assert fails(sc)
i=0
while i < len(holder['ops']):
    saved=holder['ops'][:]
    del holder['ops'][i]
    if fails(sc): continue
    holder['ops'][:]=saved
    i+=1
print(json.dumps(sc))
json.dump({'scenario':sc}, open(path+'.min','w'))
