#!/usr/bin/env python3
import json,sys
d=json.load(open(sys.argv[1]))
print(d.get('message')); print(json.dumps(d['scenario']))
n=int(sys.argv[2]) if len(sys.argv)>2 else 100
for r in d['detail']['history_tail'][-n:]:
    s=json.dumps(r['ev'])
    if ('"Ready"' in s and '"Io"' in s and '"op": "Ready"' in s) or '"op": "Flush"' in s: continue
    print(r['seq'], r['t_ns'], s[:170])
