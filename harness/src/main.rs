use std::path::PathBuf;
use tarpc_verif::props;
use tarpc_verif::sim::runner::{RunArgs, Tier};

tarpc_verif::define_clock_gettime!();

fn usage() -> ! {
    eprintln!("usage: verif <ID> --tier quick|thorough [--seed N] [--cases N] [--workers N] | verif <ID> --replay <file>");
    std::process::exit(2);
}

fn main() {
    tarpc_verif::sim::clock::self_test();
    let argv: Vec<String> = std::env::args().collect();
    if argv.len() < 2 {
        usage();
    }
    let id = argv[1].clone();
    let mut args = RunArgs {
        tier: match std::env::var("VERIF_TIER").as_deref() {
            Ok("thorough") => Tier::Thorough,
            _ => Tier::Quick,
        },
        seed: std::env::var("VERIF_SEED").ok().and_then(|s| s.parse().ok()).unwrap_or(1),
        replay: None,
        cases_override: None,
        workers_override: None,
    };
    let mut i = 2;
    while i < argv.len() {
        match argv[i].as_str() {
            "--tier" => {
                i += 1;
                args.tier = match argv.get(i).map(|s| s.as_str()) {
                    Some("quick") => Tier::Quick,
                    Some("thorough") => Tier::Thorough,
                    _ => usage(),
                };
            }
            "--seed" => {
                i += 1;
                args.seed = argv.get(i).and_then(|s| s.parse().ok()).unwrap_or_else(|| usage());
            }
            "--cases" => {
                i += 1;
                args.cases_override = Some(argv.get(i).and_then(|s| s.parse().ok()).unwrap_or_else(|| usage()));
            }
            "--workers" => {
                i += 1;
                args.workers_override = Some(argv.get(i).and_then(|s| s.parse().ok()).unwrap_or_else(|| usage()));
            }
            "--replay" => {
                i += 1;
                args.replay = Some(PathBuf::from(argv.get(i).cloned().unwrap_or_else(|| usage())));
            }
            _ => usage(),
        }
        i += 1;
    }
    let code = props::dispatch(&id, &args);
    std::process::exit(code);
}
