use std::path::PathBuf;
use tarpc_verif::props;
use tarpc_verif::sim::runner::{RunArgs, Tier};

tarpc_verif::define_clock_gettime!();

fn usage() -> ! {
    eprintln!("usage: verif <ID> --tier quick|thorough [--seed N] [--cases N] [--workers N] | verif <ID> --replay <file>");
    std::process::exit(2);
}

fn main() {
    tarpc_verif::sim::clock::self_test();
    let argv: Vec<String> = std::env::args().collect();
    if argv.len() < 2 {
        usage();
    }
    let id = argv[1].clone();
    if id == "fuzz-seeds" {
        let dir = std::path::PathBuf::from(argv.get(2).cloned().unwrap_or_else(|| usage()));
        tarpc_verif::fuzzing::write_seeds(&dir).expect("write seeds");
        return;
    }
    let mut args = RunArgs {
        tier: match std::env::var("VERIF_TIER").as_deref() {
            Ok("thorough") => Tier::Thorough,
            _ => Tier::Quick,
        },
        seed: std::env::var("VERIF_SEED").ok().and_then(|s| s.parse().ok()).unwrap_or(1),
        replay: None,
        cases_override: None,
        workers_override: None,
    };
    let mut i = 2;
    while i < argv.len() {
        match argv[i].as_str() {
            "--tier" => {
                i += 1;
                args.tier = match argv.get(i).map(|s| s.as_str()) {
                    Some("quick") => Tier::Quick,
                    Some("thorough") => Tier::Thorough,
                    _ => usage(),
                };
            }
            "--seed" => {
                i += 1;
                args.seed = argv.get(i).and_then(|s| s.parse().ok()).unwrap_or_else(|| usage());
            }
            "--cases" => {
                i += 1;
                args.cases_override = Some(argv.get(i).and_then(|s| s.parse().ok()).unwrap_or_else(|| usage()));
            }
            "--workers" => {
                i += 1;
                args.workers_override = Some(argv.get(i).and_then(|s| s.parse().ok()).unwrap_or_else(|| usage()));
            }
            "--replay" => {
                i += 1;
                args.replay = Some(PathBuf::from(argv.get(i).cloned().unwrap_or_else(|| usage())));
            }
            _ => usage(),
        }
        i += 1;
    }
    // a replay file that is not JSON is a saved libFuzzer input for this property's fuzz target
    if let Some(path) = &args.replay {
        if let Ok(bytes) = std::fs::read(path) {
            if serde_json::from_slice::<serde_json::Value>(&bytes).is_err() {
                // the file name written by fuzz/run.sh names the target (<ID>-fuzz-<target>-<seed>.bin)
                let fname = path.file_name().map(|f| f.to_string_lossy().to_string()).unwrap_or_default();
                let named = ["decode", "roundtrip", "sched_client", "sched_server"].into_iter().find(|t| fname.contains(t));
                let target = match (named, id.as_str()) {
                    (Some(t), _) => t,
                    (None, "C16") => "decode",
                    (None, "C15") => "roundtrip",
                    (None, "C01" | "C02" | "C03" | "C05") => "sched_client",
                    (None, "C04" | "C06" | "C08" | "C12") => "sched_server",
                    _ => {
                        println!("INCONCLUSIVE: the replay file is not JSON and its name does not say which fuzz target of {id} it belongs to");
                        std::process::exit(2);
                    }
                };
                std::env::set_var("VERIF_FUZZ_ONLY", &id);
                std::env::set_var("VERIF_FUZZ_REPLAY", "1");
                tarpc_verif::sim::exec::install_panic_hook();
                let r = std::thread::Builder::new()
                    .stack_size(64 << 20)
                    .spawn(move || tarpc_verif::fuzzing::replay(target, &bytes))
                    .expect("spawn")
                    .join()
                    .unwrap_or_else(|_| Err("replay thread panicked".into()));
                match r {
                    Ok(()) => {
                        println!("replay {id} (fuzz input for target {target}): property held");
                        std::process::exit(0);
                    }
                    Err(m) => {
                        println!("replay {id} (fuzz input for target {target}): {m}");
                        println!("VIOLATION property={id} replay={}", path.display());
                        std::process::exit(1);
                    }
                }
            }
        }
    }
    let code = props::dispatch(&id, &args);
    std::process::exit(code);
}
