pub mod engines;
pub mod props;
pub mod sim;
