pub mod engines;
pub mod fuzzing;
pub mod props;
pub mod sim;
