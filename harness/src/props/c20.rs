//! C20 — Load-balancing and retry stubs keep their dispatch promises.

use crate::sim::runner::{CaseOk, CaseResult, ExtraStats, Prop, Tier, Violation, Work};
use futures::task::noop_waker;
use proptest::prelude::*;
use serde::{Deserialize, Serialize};
use serde_json::json;
use std::cell::RefCell;
use std::future::Future;
use std::hash::{BuildHasher, Hasher};
use std::rc::Rc;
use std::sync::atomic::{AtomicUsize, Ordering};
use std::sync::{Arc, Mutex};
use std::task::{Context, Poll};
use tarpc::client::stub::load_balance::{ConsistentHash, RoundRobin};
use tarpc::client::stub::retry::Retry;
use tarpc::client::stub::Stub;
use tarpc::client::RpcError;
use tarpc::ServerError;

#[derive(Clone, Debug, Serialize, Deserialize, PartialEq, Eq)]
pub enum Sc20 {
    /// sequential calls
    RoundRobinSeq { backends: usize, calls: usize },
    /// `batch` call futures created, then first-polled in the order given by `order` selectors
    RoundRobinConcurrent { backends: usize, batches: Vec<Vec<u16>> },
    /// backends that do not answer on the first poll: `ops` = (start a new call and poll it once | let the
    /// backend of a pending call answer and poll that call to completion, chosen by the selector)
    RoundRobinOverlap { backends: usize, clones: bool, ops: Vec<(bool, u16)> },
    Hash { backends: usize, outputs: Vec<u64>, requests: Vec<u16>, default_hasher: bool },
    Retry { results: Vec<i8>, stop_at: u32, request: u64 },
}

#[derive(Clone)]
struct CountStub {
    id: usize,
    counts: Arc<Vec<AtomicUsize>>,
}
impl Stub for CountStub {
    type Req = u64;
    type Resp = usize;
    async fn call(&self, _ctx: tarpc::context::Context, _r: u64) -> Result<usize, RpcError> {
        self.counts[self.id].fetch_add(1, Ordering::SeqCst);
        Ok(self.id)
    }
}

/// A backend that counts the call when it arrives and answers only once the environment released it.
#[derive(Clone)]
struct SlowStub {
    id: usize,
    counts: Arc<Vec<AtomicUsize>>,
    released: Arc<Mutex<std::collections::BTreeSet<u64>>>,
}
impl Stub for SlowStub {
    type Req = u64;
    type Resp = usize;
    async fn call(&self, _ctx: tarpc::context::Context, r: u64) -> Result<usize, RpcError> {
        self.counts[self.id].fetch_add(1, Ordering::SeqCst);
        let rel = self.released.clone();
        futures::future::poll_fn(move |_| if rel.lock().unwrap().contains(&r) { Poll::Ready(()) } else { Poll::Pending }).await;
        Ok(self.id)
    }
}

fn spread(counts: &[AtomicUsize]) -> (usize, usize) {
    let v: Vec<usize> = counts.iter().map(|c| c.load(Ordering::SeqCst)).collect();
    (*v.iter().min().unwrap(), *v.iter().max().unwrap())
}

fn mk_rr(n: usize) -> (RoundRobin<CountStub>, Arc<Vec<AtomicUsize>>) {
    let counts = Arc::new((0..n).map(|_| AtomicUsize::new(0)).collect::<Vec<_>>());
    let stubs = (0..n).map(|id| CountStub { id, counts: counts.clone() }).collect();
    (RoundRobin::new(stubs), counts)
}

#[derive(Clone)]
struct TableBuild {
    outputs: Arc<Vec<u64>>,
}
struct TableHasher {
    outputs: Arc<Vec<u64>>,
    acc: u64,
}
impl Hasher for TableHasher {
    fn write(&mut self, bytes: &[u8]) {
        for b in bytes {
            self.acc = self.acc.wrapping_mul(31).wrapping_add(*b as u64);
        }
    }
    fn finish(&self) -> u64 {
        self.outputs[(self.acc % self.outputs.len() as u64) as usize]
    }
}
impl BuildHasher for TableBuild {
    type Hasher = TableHasher;
    fn build_hasher(&self) -> TableHasher {
        TableHasher { outputs: self.outputs.clone(), acc: 0 }
    }
}

#[derive(Clone)]
struct IdStub {
    id: usize,
}
impl Stub for IdStub {
    type Req = u64;
    type Resp = usize;
    async fn call(&self, _ctx: tarpc::context::Context, _r: u64) -> Result<usize, RpcError> {
        Ok(self.id)
    }
}

struct SeqStub {
    results: Vec<i8>,
    seen: Rc<RefCell<Vec<(u64, usize)>>>, // (value, arc ptr)
    n: RefCell<usize>,
}
fn mk_result(code: i8, attempt: usize) -> Result<i64, RpcError> {
    match code.rem_euclid(4) {
        0 => Ok(100 + attempt as i64),
        1 => Err(RpcError::DeadlineExceeded),
        2 => Err(RpcError::Server(ServerError::new(std::io::ErrorKind::Other, format!("s{attempt}")))),
        _ => Err(RpcError::Shutdown),
    }
}
fn show(r: &Result<i64, RpcError>) -> String {
    match r {
        Ok(v) => format!("Ok({v})"),
        Err(RpcError::Server(e)) => format!("Server({})", e.detail),
        Err(e) => format!("{e:?}"),
    }
}
impl Stub for SeqStub {
    type Req = Arc<u64>;
    type Resp = i64;
    async fn call(&self, _ctx: tarpc::context::Context, r: Arc<u64>) -> Result<i64, RpcError> {
        let k = *self.n.borrow();
        *self.n.borrow_mut() += 1;
        self.seen.borrow_mut().push((*r, Arc::as_ptr(&r) as usize));
        let code = self.results.get(k).copied().unwrap_or(0);
        mk_result(code, k + 1)
    }
}

pub fn check(sc: &Sc20) -> CaseResult {
    let ctx = tarpc::context::current();
    let fail = |m: String| -> CaseResult { Err(Violation::new(m).with_detail(json!({"scenario": sc}))) };
    match sc {
        Sc20::RoundRobinSeq { backends, calls } => {
            let n = (*backends).max(1);
            let (rr, counts) = mk_rr(n);
            for i in 0..*calls {
                let r = crate::sim::exec::catch(|| futures::executor::block_on(rr.call(ctx, i as u64)));
                match r {
                    Err(m) => return fail(format!("round-robin stub panicked: {m}")),
                    Ok(Err(e)) => return fail(format!("round-robin call failed: {e:?}")),
                    Ok(Ok(id)) if id >= n => return fail(format!("invalid backend {id}")),
                    _ => {}
                }
                let (lo, hi) = spread(&counts);
                if hi - lo > 1 {
                    return fail(format!("after {} sequential calls over {n} backends the per-backend counts differ by {} (min {lo}, max {hi})", i + 1, hi - lo));
                }
            }
            Ok(CaseOk { nontrivial: n >= 2 && *calls >= 2 * n, classes: vec!["round-robin-seq"], excluded_known: 0 })
        }
        Sc20::RoundRobinConcurrent { backends, batches } => {
            let n = (*backends).max(1);
            let (rr, counts) = mk_rr(n);
            let w = noop_waker();
            let mut cx = Context::from_waker(&w);
            let mut total = 0usize;
            for batch in batches {
                let mut futs: Vec<Option<std::pin::Pin<Box<dyn Future<Output = Result<usize, RpcError>> + '_>>>> =
                    batch.iter().enumerate().map(|(i, _)| Some(Box::pin(rr.call(ctx, i as u64)) as _)).collect();
                // first-poll order given by selectors over the not-yet-polled futures
                for sel in batch {
                    let pending: Vec<usize> = futs.iter().enumerate().filter(|(_, f)| f.is_some()).map(|(i, _)| i).collect();
                    if pending.is_empty() {
                        break;
                    }
                    let i = pending[((*sel as usize) * pending.len()) >> 16];
                    let mut f = futs[i].take().unwrap();
                    match f.as_mut().poll(&mut cx) {
                        Poll::Ready(Ok(id)) if id < n => {}
                        other => return fail(format!("concurrent round-robin call did not complete with a valid backend: {:?}", other.map(|r| r.map_err(|e| format!("{e:?}"))))),
                    }
                    total += 1;
                    let (lo, hi) = spread(&counts);
                    if hi - lo > 1 {
                        return fail(format!("after {total} calls (issued concurrently, polled in generated order) the per-backend counts differ by {}", hi - lo));
                    }
                }
            }
            Ok(CaseOk { nontrivial: n >= 2 && total >= 2 * n, classes: vec!["round-robin-concurrent-futures"], excluded_known: 0 })
        }
        Sc20::RoundRobinOverlap { backends, clones, ops } => {
            let n = (*backends).max(1);
            let counts = Arc::new((0..n).map(|_| AtomicUsize::new(0)).collect::<Vec<_>>());
            let released: Arc<Mutex<std::collections::BTreeSet<u64>>> = Default::default();
            let rr = RoundRobin::new((0..n).map(|id| SlowStub { id, counts: counts.clone(), released: released.clone() }).collect());
            let rr2 = rr.clone();
            let w = noop_waker();
            let mut cx = Context::from_waker(&w);
            let mut pending: Vec<(u64, std::pin::Pin<Box<dyn Future<Output = Result<usize, RpcError>> + '_>>)> = vec![];
            let (mut started, mut max_overlap) = (0u64, 0usize);
            for (start, sel) in ops {
                if *start || pending.is_empty() {
                    let which = if *clones && started % 2 == 1 { &rr2 } else { &rr };
                    let mut f: std::pin::Pin<Box<dyn Future<Output = Result<usize, RpcError>> + '_>> = Box::pin(which.call(ctx, started));
                    if let Poll::Ready(r) = f.as_mut().poll(&mut cx) {
                        return fail(format!("call {started} completed before its backend answered: {:?}", r.map_err(|e| format!("{e:?}"))));
                    }
                    pending.push((started, f));
                    started += 1;
                    max_overlap = max_overlap.max(pending.len());
                    let (lo, hi) = spread(&counts);
                    if hi - lo > 1 {
                        return fail(format!(
                            "after {started} calls dispatched over {n} backends ({} still waiting for their backend) the per-backend counts differ by {} (min {lo}, max {hi})",
                            pending.len(), hi - lo
                        ));
                    }
                } else {
                    let i = ((*sel as usize) * pending.len()) >> 16;
                    let (tok, mut f) = pending.remove(i);
                    released.lock().unwrap().insert(tok);
                    match f.as_mut().poll(&mut cx) {
                        Poll::Ready(Ok(id)) if id < n => {}
                        other => return fail(format!("call {tok} did not complete after its backend answered: {:?}", other.map(|r| r.map_err(|e| format!("{e:?}"))))),
                    }
                    let (lo, hi) = spread(&counts);
                    if hi - lo > 1 {
                        return fail(format!("after a completion the per-backend counts differ by {}", hi - lo));
                    }
                }
            }
            Ok(CaseOk { nontrivial: n >= 2 && max_overlap >= 2 && started as usize >= 2 * n, classes: vec!["round-robin-overlapping-calls"], excluded_known: 0 })
        }
        Sc20::Hash { backends, outputs, requests, default_hasher } => {
            let n = (*backends).max(1);
            let stubs: Vec<IdStub> = (0..n).map(|id| IdStub { id }).collect();
            let mut seen: std::collections::BTreeMap<u64, usize> = Default::default();
            let call = |req: u64, which: &dyn Fn(u64) -> Result<Result<usize, RpcError>, String>| which(req);
            let outs = if outputs.is_empty() { vec![0] } else { outputs.clone() };
            let table = ConsistentHash::with_hasher(stubs.clone(), TableBuild { outputs: Arc::new(outs) });
            let deflt = ConsistentHash::new(stubs.clone());
            let (Ok(table), Ok(deflt)) = (table, deflt) else { return fail("constructor failed for a valid backend count".into()) };
            let f = |req: u64| -> Result<Result<usize, RpcError>, String> {
                if *default_hasher {
                    crate::sim::exec::catch(|| futures::executor::block_on(deflt.call(ctx, req)))
                } else {
                    crate::sim::exec::catch(|| futures::executor::block_on(table.call(ctx, req)))
                }
            };
            let mut repeats = 0;
            for r in requests {
                let req = (*r % 11) as u64 * 0x1_0000_0001;
                match call(req, &f) {
                    Err(m) => return fail(format!("consistent-hash stub panicked for {n} backends: {m}")),
                    Ok(Err(e)) => return fail(format!("consistent-hash call failed: {e:?}")),
                    Ok(Ok(id)) => {
                        if id >= n {
                            return fail(format!("consistent-hash picked backend {id} of {n}"));
                        }
                        if let Some(prev) = seen.insert(req, id) {
                            repeats += 1;
                            if prev != id {
                                return fail(format!("equal requests ({req}) were sent to different backends ({prev} then {id})"));
                            }
                        }
                    }
                }
            }
            Ok(CaseOk { nontrivial: n >= 2 && repeats >= 1 && requests.len() >= 2 * n, classes: vec![if *default_hasher { "hash-default" } else { "hash-generated-hasher" }], excluded_known: 0 })
        }
        Sc20::Retry { results, stop_at, request } => {
            let seen = Rc::new(RefCell::new(vec![]));
            let stub = SeqStub { results: results.clone(), seen: seen.clone(), n: RefCell::new(0) };
            let policy_log: Rc<RefCell<Vec<(String, u32)>>> = Rc::new(RefCell::new(vec![]));
            let pl = policy_log.clone();
            let stop = (*stop_at).max(1);
            let nres = results.len().max(1) as u32;
            let retry = Retry::new(stub, move |r: &Result<i64, RpcError>, attempt: u32| {
                pl.borrow_mut().push((show(r), attempt));
                // decline at stop_at, or when the scripted results are exhausted (bounded run)
                attempt < stop && attempt < nres
            });
            let out = crate::sim::exec::catch(|| futures::executor::block_on(retry.call(ctx, *request)));
            let out = match out {
                Err(m) => return fail(format!("retry stub panicked: {m}")),
                Ok(o) => o,
            };
            let attempts = stop.min(nres) as usize;
            let seen = seen.borrow();
            let pl = policy_log.borrow();
            if seen.len() != attempts {
                return fail(format!("backend was called {} times, expected {attempts} (policy declines at attempt {attempts})", seen.len()));
            }
            if seen.iter().any(|(v, p)| *v != *request || *p != seen[0].1) {
                return fail(format!("backend did not see the identical request on every attempt: {seen:?}"));
            }
            for (i, (shown, attempt)) in pl.iter().enumerate() {
                let expect = show(&mk_result(results.get(i).copied().unwrap_or(0), i + 1));
                if *attempt != i as u32 + 1 {
                    return fail(format!("policy was passed attempt number {attempt} on the {}-th attempt (expected {})", i + 1, i + 1));
                }
                if *shown != expect {
                    return fail(format!("policy saw {shown} on attempt {} but the backend produced {expect}", i + 1));
                }
            }
            if pl.len() != attempts {
                return fail(format!("policy consulted {} times for {attempts} attempts", pl.len()));
            }
            let last = show(&mk_result(results.get(attempts - 1).copied().unwrap_or(0), attempts));
            if show(&out) != last {
                return fail(format!("caller got {} but the last attempt produced {last}", show(&out)));
            }
            Ok(CaseOk { nontrivial: attempts >= 2, classes: vec!["retry"], excluded_known: 0 })
        }
    }
}

pub struct C20;
impl Prop for C20 {
    type Scenario = Sc20;
    fn id(&self) -> &'static str {
        "C20"
    }
    fn rule(&self) -> String {
        "Scenario = one of: RoundRobin over 1-7 counting backends with a generated number of sequential calls (a fixed share >= 65 calls); RoundRobin with batches of call futures created together and first-polled in a generated order; RoundRobin (also through a clone) over backends that answer only when released, so that up to 40 calls overlap in generated start/answer orders; \
         ConsistentHash over 1-7 backends with a generated BuildHasher (arbitrary 64-bit outputs incl. 0, u64::MAX, multiples of the length) or the default RandomState and request sequences with repeats; \
         Retry over a backend returning a generated result sequence with a policy declining at a generated attempt. Both tiers add a real-threads run against shared counting stubs. \
         Oracle: after every call max-min of per-backend counts <= 1; equal requests map to equal backends, index < len, no panic; the backend saw the identical request (same Arc) each attempt, the policy saw attempts 1,2,3,.. with exactly the produced results, the caller got the last result. \
         Non-trivial = >=2 backends and >= 2*len calls (with a repeat for hashing); retry with >=2 attempts; distinct = distinct scenario JSON."
            .into()
    }
    fn work(&self, tier: Tier) -> Work {
        match tier {
            Tier::Quick => Work { cases_per_worker: 2000, workers: 8 },
            Tier::Thorough => Work { cases_per_worker: 200000, workers: 16 },
        }
    }
    fn strategy(&self, _tier: Tier) -> BoxedStrategy<Sc20> {
        let outs = prop_oneof![Just(0u64), Just(u64::MAX), Just(u64::MAX - 1), (0u64..8).prop_map(|k| k * 7), any::<u64>(), (1u64..8).prop_map(|k| k << 32)];
        prop_oneof![
            2 => (1usize..=7, prop_oneof![3 => 0usize..40, 1 => 65usize..200]).prop_map(|(backends, calls)| Sc20::RoundRobinSeq { backends, calls }),
            2 => (1usize..=7, proptest::collection::vec(proptest::collection::vec(any::<u16>(), 1..12), 1..8))
                .prop_map(|(backends, batches)| Sc20::RoundRobinConcurrent { backends, batches }),
            2 => (1usize..=7, any::<bool>(), proptest::collection::vec((proptest::bool::weighted(0.6), any::<u16>()), 1..40))
                .prop_map(|(backends, clones, ops)| Sc20::RoundRobinOverlap { backends, clones, ops }),
            3 => (1usize..=7, proptest::collection::vec(outs, 1..16), proptest::collection::vec(any::<u16>(), 0..40), proptest::bool::weighted(0.2))
                .prop_map(|(backends, outputs, requests, default_hasher)| Sc20::Hash { backends, outputs, requests, default_hasher }),
            3 => (proptest::collection::vec(any::<i8>(), 1..8), 1u32..9, any::<u64>())
                .prop_map(|(results, stop_at, request)| Sc20::Retry { results, stop_at, request }),
        ]
        .boxed()
    }
    fn run_case(&self, sc: &Sc20) -> CaseResult {
        check(sc)
    }
    fn extra(&self, tier: Tier, seed: u64) -> Result<ExtraStats, Violation> {
        // real threads against shared counting stubs
        let (threads, per) = match tier {
            Tier::Quick => (8usize, 2_000usize),
            Tier::Thorough => (16, 100_000),
        };
        let mut stats = ExtraStats::default();
        for (round, n) in [2usize, 3, 5, 7].iter().enumerate() {
            let (rr, counts) = mk_rr(*n);
            let bad = Arc::new(Mutex::new(None::<String>));
            std::thread::scope(|s| {
                for _ in 0..threads {
                    let rr = rr.clone();
                    let bad = bad.clone();
                    s.spawn(move || {
                        let ctx = tarpc::context::current();
                        for i in 0..per {
                            match futures::executor::block_on(rr.call(ctx, i as u64)) {
                                Ok(_) => {}
                                Err(e) => {
                                    *bad.lock().unwrap() = Some(format!("{e:?}"));
                                    return;
                                }
                            }
                        }
                    });
                }
            });
            if let Some(b) = bad.lock().unwrap().take() {
                return Err(Violation::new(format!("round-robin call failed on a real thread: {b}")));
            }
            let (lo, hi) = spread(&counts);
            stats.evaluations += (threads * per) as u64;
            stats.nontrivial += 1;
            stats.samples.push(json!({"real_threads": threads, "calls_per_thread": per, "backends": n, "min": lo, "max": hi, "seed": seed, "round": round}));
            if hi - lo > 1 {
                return Err(Violation::new(format!(
                    "{threads} real threads x {per} calls over {n} backends: per-backend counts differ by {} (min {lo}, max {hi})",
                    hi - lo
                ))
                .with_detail(json!({"threads": threads, "per_thread": per, "backends": n, "min": lo, "max": hi})));
            }
        }
        stats.notes.insert("real_thread_rounds".into(), json!(4));
        Ok(stats)
    }
    fn extra_replay(&self, v: &Violation) -> Option<serde_json::Value> {
        Some(json!({"property": "C20", "kind": "real-threads round-robin run (re-run ./check C20 quick to reproduce; schedule-dependent)", "message": v.msg, "detail": v.detail}))
    }
}
