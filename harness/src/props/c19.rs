//! C19 — Request hooks run in order and short-circuit correctly.
//! Engine G: generated hook specs applied with tarpc's real combinators (type-erased between layers)
//! versus a small reference interpreter.

use crate::sim::runner::{CaseOk, CaseResult, Prop, Tier, Violation, Work};
use proptest::prelude::*;
use serde::{Deserialize, Serialize};
use serde_json::json;
use std::cell::RefCell;
use std::future::Future;
use std::pin::Pin;
use std::rc::Rc;
use std::time::{Duration, Instant};
use tarpc::context::Context;
use tarpc::server::request_hook::{before, AfterRequest, BeforeRequest, BeforeRequestList, RequestHook};
use tarpc::server::Serve;
use tarpc::ServerError;

#[derive(Clone, Copy, Debug, Serialize, Deserialize, PartialEq, Eq)]
pub enum Rewrite {
    None,
    SetOk(i64),
    SetErr(u16),
    Map,
}

#[derive(Clone, Copy, Debug, Serialize, Deserialize, PartialEq, Eq)]
pub struct B {
    pub fail: bool,
    pub shift_ms: u32,
}

#[derive(Clone, Debug, Serialize, Deserialize, PartialEq, Eq)]
pub enum Layer {
    Before(B),
    BeforeList(Vec<B>),
    After(Rewrite),
    BeforeAndAfter(B, Rewrite),
}

#[derive(Clone, Debug, Serialize, Deserialize, PartialEq, Eq)]
pub struct Sc19 {
    pub base_ok: bool,
    /// layers[0] is applied first (innermost)
    pub layers: Vec<Layer>,
}

#[derive(Clone, Debug, PartialEq, Eq, Serialize)]
pub enum Evt {
    Before { hook: usize, deadline_ms: i64 },
    After { hook: usize, deadline_ms: Option<i64>, seen: Result<i64, String> },
    Handler { deadline_ms: i64 },
}

type Log = Rc<RefCell<Vec<Evt>>>;

fn ms_since(base: Instant, d: Instant) -> i64 {
    if d >= base {
        (d - base).as_millis() as i64
    } else {
        -((base - d).as_millis() as i64)
    }
}

#[derive(Clone)]
struct Hook {
    id: usize,
    log: Log,
    base: Instant,
    b: Option<B>,
    rw: Rewrite,
    /// plain After hooks do not report the context they see (unconstrained by the statement)
    report_after_ctx: bool,
}

fn apply_rewrite(rw: Rewrite, r: &mut Result<i64, ServerError>) {
    match rw {
        Rewrite::None => {}
        Rewrite::SetOk(v) => *r = Ok(v),
        Rewrite::SetErr(c) => *r = Err(ServerError::new(std::io::ErrorKind::Other, format!("set{c}"))),
        Rewrite::Map => match r {
            Ok(v) => *v += 1000,
            Err(e) => e.detail.push('!'),
        },
    }
}

fn model_rewrite(rw: Rewrite, r: Result<i64, String>) -> Result<i64, String> {
    match rw {
        Rewrite::None => r,
        Rewrite::SetOk(v) => Ok(v),
        Rewrite::SetErr(c) => Err(format!("set{c}")),
        Rewrite::Map => match r {
            Ok(v) => Ok(v + 1000),
            Err(e) => Err(format!("{e}!")),
        },
    }
}

impl BeforeRequest<u64> for Hook {
    async fn before(&mut self, ctx: &mut Context, _req: &u64) -> Result<(), ServerError> {
        let b = self.b.expect("before spec");
        self.log.borrow_mut().push(Evt::Before { hook: self.id, deadline_ms: ms_since(self.base, ctx.deadline) });
        ctx.deadline += Duration::from_millis(b.shift_ms as u64);
        if b.fail {
            Err(ServerError::new(std::io::ErrorKind::Other, format!("fail{}", self.id)))
        } else {
            Ok(())
        }
    }
}

impl AfterRequest<i64> for Hook {
    async fn after(&mut self, ctx: &mut Context, resp: &mut Result<i64, ServerError>) {
        let seen = resp.clone().map_err(|e| e.detail);
        let deadline_ms = if self.report_after_ctx { Some(ms_since(self.base, ctx.deadline)) } else { None };
        self.log.borrow_mut().push(Evt::After { hook: self.id, deadline_ms, seen });
        apply_rewrite(self.rw, resp);
    }
}

// ---- type erasure between layers
trait DynServe {
    fn call(self: Box<Self>, ctx: Context, req: u64) -> Pin<Box<dyn Future<Output = Result<i64, ServerError>>>>;
}
impl<S: Serve<Req = u64, Resp = i64> + 'static> DynServe for S {
    fn call(self: Box<Self>, ctx: Context, req: u64) -> Pin<Box<dyn Future<Output = Result<i64, ServerError>>>> {
        Box::pin(async move { (*self).serve(ctx, req).await })
    }
}
struct Boxed(Box<dyn DynServe>);
impl Serve for Boxed {
    type Req = u64;
    type Resp = i64;
    async fn serve(self, ctx: Context, req: u64) -> Result<i64, ServerError> {
        self.0.call(ctx, req).await
    }
}

struct Base {
    log: Log,
    base: Instant,
    ok: bool,
}
impl Serve for Base {
    type Req = u64;
    type Resp = i64;
    async fn serve(self, ctx: Context, _req: u64) -> Result<i64, ServerError> {
        self.log.borrow_mut().push(Evt::Handler { deadline_ms: ms_since(self.base, ctx.deadline) });
        if self.ok {
            Ok(7)
        } else {
            Err(ServerError::new(std::io::ErrorKind::Other, "base".into()))
        }
    }
}

fn build(sc: &Sc19, log: &Log, base: Instant) -> Boxed {
    let mut s = Boxed(Box::new(Base { log: log.clone(), base, ok: sc.base_ok }));
    let mut next_id = 0usize;
    let mut mk = |b: Option<B>, rw: Rewrite, report: bool| {
        let h = Hook { id: next_id, log: log.clone(), base, b, rw, report_after_ctx: report };
        next_id += 1;
        h
    };
    for l in &sc.layers {
        s = match l {
            Layer::Before(b) => Boxed(Box::new(s.before(mk(Some(*b), Rewrite::None, false)))),
            Layer::After(rw) => Boxed(Box::new(s.after(mk(None, *rw, false)))),
            Layer::BeforeAndAfter(b, rw) => Boxed(Box::new(s.before_and_after(mk(Some(*b), *rw, true)))),
            Layer::BeforeList(bs) => {
                let hs: Vec<Hook> = bs.iter().map(|b| mk(Some(*b), Rewrite::None, false)).collect();
                match hs.len() {
                    0 => Boxed(Box::new(before().serving(s))),
                    1 => Boxed(Box::new(before().then(hs[0].clone()).serving(s))),
                    2 => Boxed(Box::new(before().then(hs[0].clone()).then(hs[1].clone()).serving(s))),
                    3 => Boxed(Box::new(before().then(hs[0].clone()).then(hs[1].clone()).then(hs[2].clone()).serving(s))),
                    _ => Boxed(Box::new(
                        before().then(hs[0].clone()).then(hs[1].clone()).then(hs[2].clone()).then(hs[3].clone()).serving(s),
                    )),
                }
            }
        };
    }
    s
}

/// Reference interpreter. `k` = number of layers still wrapping (evaluates layers[k-1] outermost).
fn model(sc: &Sc19, k: usize, first_id: &[usize], deadline: i64, log: &mut Vec<Evt>) -> Result<i64, String> {
    if k == 0 {
        log.push(Evt::Handler { deadline_ms: deadline });
        return if sc.base_ok { Ok(7) } else { Err("base".into()) };
    }
    let id0 = first_id[k - 1];
    match &sc.layers[k - 1] {
        Layer::Before(b) => {
            log.push(Evt::Before { hook: id0, deadline_ms: deadline });
            if b.fail {
                return Err(format!("fail{id0}"));
            }
            model(sc, k - 1, first_id, deadline + b.shift_ms as i64, log)
        }
        Layer::BeforeList(bs) => {
            let mut d = deadline;
            for (j, b) in bs.iter().take(4).enumerate() {
                log.push(Evt::Before { hook: id0 + j, deadline_ms: d });
                d += b.shift_ms as i64;
                if b.fail {
                    return Err(format!("fail{}", id0 + j));
                }
            }
            model(sc, k - 1, first_id, d, log)
        }
        Layer::After(rw) => {
            let r = model(sc, k - 1, first_id, deadline, log);
            log.push(Evt::After { hook: id0, deadline_ms: None, seen: r.clone() });
            model_rewrite(*rw, r)
        }
        Layer::BeforeAndAfter(b, rw) => {
            log.push(Evt::Before { hook: id0, deadline_ms: deadline });
            if b.fail {
                return Err(format!("fail{id0}"));
            }
            let d = deadline + b.shift_ms as i64;
            let r = model(sc, k - 1, first_id, d, log);
            log.push(Evt::After { hook: id0, deadline_ms: Some(d), seen: r.clone() });
            model_rewrite(*rw, r)
        }
    }
}

pub fn check(sc: &Sc19) -> CaseResult {
    let log: Log = Rc::new(RefCell::new(vec![]));
    let base = Instant::now() + Duration::from_secs(1000);
    let serve = build(sc, &log, base);
    let mut ctx = tarpc::context::current();
    ctx.deadline = base;
    let got = crate::sim::exec::catch(|| futures::executor::block_on(serve.serve(ctx, 1)));
    let got = match got {
        Ok(r) => r.map_err(|e| e.detail),
        Err(m) => return Err(Violation::new(format!("panic while serving through hooks: {m}"))),
    };
    // ids are assigned in layer order; a BeforeList consumes one id per element (max 4)
    let mut first_id = vec![];
    let mut n = 0usize;
    for l in &sc.layers {
        first_id.push(n);
        n += match l {
            Layer::BeforeList(bs) => bs.len().min(4),
            _ => 1,
        };
    }
    let mut mlog = vec![];
    let want = model(sc, sc.layers.len(), &first_id, 0, &mut mlog);
    let glog = log.borrow().clone();
    if glog != mlog || got != want {
        return Err(Violation::new(format!(
            "hook chain misbehaved: result {got:?}, expected {want:?}; first differing event #{}",
            glog.iter().zip(mlog.iter()).position(|(a, b)| a != b).unwrap_or(glog.len().min(mlog.len()))
        ))
        .with_detail(json!({"observed_events": glog, "expected_events": mlog, "observed_result": format!("{got:?}"), "expected_result": format!("{want:?}")})));
    }
    let kinds: std::collections::BTreeSet<u8> = sc
        .layers
        .iter()
        .map(|l| match l {
            Layer::Before(_) => 0,
            Layer::BeforeList(_) => 1,
            Layer::After(_) => 2,
            Layer::BeforeAndAfter(..) => 3,
        })
        .collect();
    let failing_inner = sc.layers.iter().enumerate().any(|(i, l)| {
        i + 1 < sc.layers.len()
            && match l {
                Layer::Before(b) | Layer::BeforeAndAfter(b, _) => b.fail,
                Layer::BeforeList(bs) => bs.iter().any(|b| b.fail),
                _ => false,
            }
    });
    let rewriting = sc.layers.iter().any(|l| matches!(l, Layer::After(r) | Layer::BeforeAndAfter(_, r) if *r != Rewrite::None));
    let mut classes = vec![];
    if failing_inner {
        classes.push("failing-before-not-outermost");
    }
    if rewriting {
        classes.push("rewriting-after");
    }
    if sc.layers.iter().any(|l| matches!(l, Layer::BeforeList(b) if b.len() >= 2)) {
        classes.push("before-list>=2");
    }
    if glog.iter().any(|e| matches!(e, Evt::After { seen: Err(s), .. } if s.starts_with("fail"))) {
        classes.push("after-saw-inner-before-failure");
    }
    let nontrivial = sc.layers.len() >= 3 && kinds.len() >= 2 && (failing_inner || rewriting);
    Ok(CaseOk { nontrivial, classes, excluded_known: 0 })
}

fn b_strategy() -> impl Strategy<Value = B> {
    (proptest::bool::weighted(0.2), prop_oneof![Just(0u32), 1u32..50, 50u32..100_000]).prop_map(|(fail, shift_ms)| B { fail, shift_ms })
}
fn rw_strategy() -> impl Strategy<Value = Rewrite> {
    prop_oneof![
        2 => Just(Rewrite::None),
        1 => (-5i64..5).prop_map(Rewrite::SetOk),
        1 => (0u16..5).prop_map(Rewrite::SetErr),
        2 => Just(Rewrite::Map),
    ]
}

pub struct C19;
impl Prop for C19 {
    type Scenario = Sc19;
    fn id(&self) -> &'static str {
        "C19"
    }
    fn rule(&self) -> String {
        "Scenario = hook spec: base handler result (Ok/Err) + 0-6 layers, each Before{fail?, deadline shift}, BeforeList[1-4 x {fail?, shift}] (built with before().then(..).serving(..)), After{rewrite none/set_ok/set_err/map} or \
         BeforeAndAfter{fail?, shift, rewrite}; layers are applied with tarpc's own combinators in generated nesting order (each intermediate Serve is type-erased behind a boxed adapter). \
         Oracle = recursive reference interpreter of the spec: exact event log (which hook ran, in which order, with which deadline in the context, which result an after-hook saw) and the final result. What a plain After sees of the context is not compared. \
         Non-trivial = >=3 layers of >=2 kinds with a failing before-hook that is not outermost or a rewriting after-hook; distinct = distinct spec JSON."
            .into()
    }
    fn work(&self, tier: Tier) -> Work {
        match tier {
            Tier::Quick => Work { cases_per_worker: 8000, workers: 8 },
            Tier::Thorough => Work { cases_per_worker: 200000, workers: 16 },
        }
    }
    fn strategy(&self, _tier: Tier) -> BoxedStrategy<Sc19> {
        let layer = prop_oneof![
            3 => b_strategy().prop_map(Layer::Before),
            3 => proptest::collection::vec(b_strategy(), 1..=4).prop_map(Layer::BeforeList),
            3 => rw_strategy().prop_map(Layer::After),
            3 => (b_strategy(), rw_strategy()).prop_map(|(b, r)| Layer::BeforeAndAfter(b, r)),
        ];
        (proptest::bool::weighted(0.7), proptest::collection::vec(layer, 0..=6))
            .prop_map(|(base_ok, layers)| Sc19 { base_ok, layers })
            .boxed()
    }
    fn run_case(&self, sc: &Sc19) -> CaseResult {
        check(sc)
    }
}
