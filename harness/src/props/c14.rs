//! C14 — tarpc honours the pluggable transport's contract (client dispatch and server channel).

use super::cgen::{scenario_strategy, CProfile, CScenario};
use super::contract::check_contract;
use crate::engines::client::{run_client, COp};
use crate::sim::runner::{CaseOk, CaseResult, Prop, Tier, Violation, Work};
use proptest::prelude::*;
use serde::{Deserialize, Serialize};
use serde_json::json;

pub struct C14;

#[derive(Clone, Debug, Serialize, Deserialize)]
pub enum Sc14 {
    Client(CScenario),
    Server(super::sgen::SScenario),
}

pub fn client_profile() -> CProfile {
    CProfile {
        w_stepcoop: 3,
        w_step: 30,
        w_drain: 8,
        w_newcall: 22,
        w_reply: 12,
        w_dup: 1,
        w_unknown: 1,
        w_dropcall: 10,
        w_clone: 1,
        w_drophandle: 2,
        w_advance: 3,
        w_advance_to: 1,
        w_budget: 14,
        w_fault: 2,
        w_peerclose: 1,
        w_closepending: 1,
        max_ops: 70,
        dl_far: 8,
        dl_short: 2,
        dl_past: 1,
        max_in_flight: 1..=5,
        buffer: 1..=4,
        cap: 1..=3,
        independent: None,
        ..CProfile::default()
    }
}

pub fn check_client(sc: &CScenario) -> CaseResult {
    let mut ops = sc.ops.clone();
    ops.push(COp::Drain);
    ops.push(COp::Budget { n: 255 });
    ops.push(COp::Drain);
    ops.push(COp::DropAllCalls);
    ops.push(COp::DropAllHandles);
    ops.push(COp::Drain);
    let run = run_client(&sc.cfg, &ops);
    let tail = || {
        let r = &run.recs;
        serde_json::to_value(&r[r.len().saturating_sub(60)..]).unwrap_or_default()
    };
    match check_contract(&run.recs, 0, 0, sc.cfg.independent, false) {
        Err(m) => Err(Violation::new(format!("client dispatch: {m}")).with_detail(json!({"history_tail": tail()}))),
        Ok(st) => {
            if let Some((t, m)) = run.panics.first() {
                // a panic other than the spin guard is not C14's business unless it is the spin guard
                if m.contains("SIM-SPIN") {
                    return Err(Violation::new(format!("client dispatch (task {t}) spun on a not-ready transport: {m}"))
                        .with_detail(json!({"history_tail": tail()})));
                }
            }
            let mut classes = vec![];
            if st.not_ready_seen {
                classes.push("client:not-ready-seen");
            }
            if sc.cfg.independent {
                classes.push("client:independent-model");
            } else {
                classes.push("client:coupled-model");
            }
            if sc.cfg.cap == 1 {
                classes.push("client:cap1");
            }
            let nontrivial = sc.cfg.cap == 1 && st.not_ready_seen && st.sends_after_not_ready >= 2;
            Ok(CaseOk { nontrivial, classes, excluded_known: run.excluded_known })
        }
    }
}

impl Prop for C14 {
    type Scenario = Sc14;
    fn id(&self) -> &'static str {
        "C14"
    }
    fn rule(&self) -> String {
        "Scenario = endpoint config + generated ops on a scripted transport with both readiness models (coupled: not ready implies flush pending; \
         independent: flush always completes), capacities 1-3, write budgets blocked/restored at generated points, faults on the k-th call of each \
         transport operation. Oracle = Sink contract monitor over the operation log: (1) each start_send preceded by its own poll_ready->Ready(Ok); \
         (2) no start_send after poll_close or after a readiness/flush/close failure; (3) never idle with written-but-unflushed items unless a flush is in \
         progress; (4) no more than 64 consecutive not-ready poll_ready results inside one poll without a successful transport operation (each internal progress event such as a timer expiry legitimately re-checks readiness, an unbounded retry loop reaches the bound at once). Non-trivial = capacity-1 transport that was not ready at \
         least once with >=2 items written afterwards; distinct = distinct scenario JSON."
            .into()
    }
    fn assumptions(&self) -> Vec<String> {
        vec!["the scripted transport wakes the writer exactly when its blocking condition changes".into()]
    }
    fn work(&self, tier: Tier) -> Work {
        match tier {
            Tier::Quick => Work { cases_per_worker: 7500, workers: 8 },
            Tier::Thorough => Work { cases_per_worker: 160000, workers: 16 },
        }
    }
    fn strategy(&self, _tier: Tier) -> BoxedStrategy<Sc14> {
        prop_oneof![
            scenario_strategy(&client_profile()).prop_map(Sc14::Client),
            super::sgen::scenario_strategy(&super::sprops::c14s_profile()).prop_map(Sc14::Server),
        ]
        .boxed()
    }
    fn run_case(&self, sc: &Sc14) -> CaseResult {
        match sc {
            Sc14::Client(c) => check_client(c),
            Sc14::Server(s) => super::sprops::c14s_check(s),
        }
    }
}
