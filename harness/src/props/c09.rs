//! C09 — Transport failures are contained and reported (client part; server part in c09s).

use super::cgen::{scenario_strategy, CProfile, CScenario};
use super::cview::CView;
use crate::engines::client::{run_client, COp};
use crate::sim::hist::{Ev, IoOp, IoRes, Msg, Outcome};
use crate::sim::runner::{CaseOk, CaseResult, Violation};
use serde_json::json;
use std::collections::BTreeSet;

pub fn client_profile() -> CProfile {
    CProfile {
        w_stepcoop: 3,
        w_step: 30,
        w_drain: 8,
        w_newcall: 24,
        w_reply: 10,
        w_dup: 1,
        w_unknown: 1,
        w_dropcall: 10,
        w_clone: 1,
        w_drophandle: 1,
        w_advance: 2,
        w_advance_to: 1,
        w_budget: 6,
        w_fault: 7,
        w_peerclose: 2,
        w_closepending: 1,
        max_ops: 70,
        dl_far: 10,
        dl_short: 1,
        dl_past: 0,
        max_in_flight: 1..=3,
        buffer: 1..=2,
        cap: 1..=2,
        independent: None,
        ..CProfile::default()
    }
}

pub fn check_client(sc: &CScenario, shutdown: bool) -> CaseResult {
    let mut ops = sc.ops.clone();
    if shutdown {
        // exercise poll_close (and its failure) through an orderly shutdown
        ops.push(COp::DropAllCalls);
        ops.push(COp::DropAllHandles);
    }
    ops.push(COp::Drain);
    // later calls fail fast / keep working
    ops.push(COp::NewCall { handle: 0, dl: crate::engines::client::Dl::InSecs(7200), trace: 0, sampled: false });
    ops.push(COp::Drain);
    ops.push(COp::Budget { n: 255 });
    ops.push(COp::Drain);
    let run = run_client(&sc.cfg, &ops);
    let v = CView::new(&run);
    let fail = |msg: String| -> CaseResult {
        Err(Violation::new(msg).with_detail(json!({"history_tail": v.tail(80)})))
    };
    if let Some(p) = v.first_panic() {
        return fail(format!("a transport fault (or the run around it) caused a panic: {p}"));
    }
    if run.livelock {
        return fail("livelock".into());
    }
    // first terminal failure / end-of-stream on the client transport
    let mut terminal: Option<(usize, &'static str)> = None;
    let mut eof: Option<usize> = None;
    let mut failed_request_sends: BTreeSet<u64> = BTreeSet::new();
    for r in &run.recs {
        if let Ev::Io { tr: 0, op, res, sent, .. } = &r.ev {
            let t = match (op, res) {
                (IoOp::Ready, IoRes::Err) => Some("Ready"),
                (IoOp::Flush, IoRes::Err) => Some("Flush"),
                (IoOp::Close, IoRes::Err) => Some("Close"),
                (IoOp::Next, IoRes::ItemErr) => Some("Read"),
                (IoOp::Send, IoRes::Err) => match sent {
                    Some(Msg::Cancel { .. }) => Some("Write"),
                    Some(Msg::Request { id, .. }) => {
                        failed_request_sends.insert(*id);
                        None
                    }
                    _ => None,
                },
                _ => None,
            };
            if let Some(t) = t {
                if terminal.is_none() {
                    terminal = Some((r.seq, t));
                }
            }
            if matches!((op, res), (IoOp::Next, IoRes::End)) && eof.is_none() && terminal.is_none() {
                eof = Some(r.seq);
            }
        }
    }
    // no transport operation after a terminal failure
    if let Some((tseq, what)) = terminal {
        if let Some(r) = run.recs.iter().find(|r| r.seq > tseq && matches!(&r.ev, Ev::Io { tr: 0, .. })) {
            return fail(format!("transport used again (seq {}) after its {what} failure at seq {tseq}", r.seq));
        }
    }
    // dispatch result
    match (&run.dispatch_end, terminal, eof) {
        (Some(Err(a)), Some((_, t)), _) => {
            if a != t {
                return fail(format!("dispatch ended with an error naming {a:?} but the failed activity was {t:?}"));
            }
        }
        (Some(Err(a)), None, _) => {
            return fail(format!("dispatch ended with error {a:?} although no transport operation failed"));
        }
        (Some(Ok(())), Some((_, t)), None) => {
            return fail(format!("dispatch ended Ok(()) although the transport failed during {t}"));
        }
        (None, Some((tseq, t)), _) => {
            return fail(format!("transport failed during {t} (seq {tseq}) but the dispatch has not ended by the final quiescence"));
        }
        (None, None, Some(e)) => {
            return fail(format!("peer closed the read side (seq {e}) but the dispatch has not ended by the final quiescence"));
        }
        _ => {}
    }
    // per-call outcome rules
    for c in &run.calls {
        let call = c.call;
        let Some((rseq, rt, out)) = &run.states[call].resolved else {
            if run.states[call].dropped.is_some() {
                continue;
            }
            // still pending at the end: only allowed if the connection is healthy
            if terminal.is_some() || eof.is_some() || run.dispatch_end.is_some() {
                return fail(format!("call {call} hangs: still pending at the final quiescence although the connection is gone"));
            }
            continue;
        };
        let wire = v.wire.get(&call);
        match out {
            Outcome::Ok(_) | Outcome::Server(..) => {
                let Some((id, sseq, _, _)) = wire else {
                    return fail(format!("call {call} reports {out:?} but was never transmitted"));
                };
                let first = v.responses_for(*id).into_iter().find(|n| n.seq > *sseq && n.seq < *rseq);
                let ok = match (first.map(|n| &n.msg), out) {
                    (Some(Msg::Response { result: Ok(q), .. }), Outcome::Ok(p)) => p == q,
                    (Some(Msg::Response { result: Err((k2, d2)), .. }), Outcome::Server(k, d)) => k == k2 && d == d2,
                    _ => false,
                };
                if !ok {
                    return fail(format!("call {call} reports success/server result {out:?} without a matching reply handed to the dispatch"));
                }
            }
            Outcome::Deadline => {
                if (*rt as i128) < c.deadline_ns {
                    return fail(format!("call {call} failed with DeadlineExceeded at {rt}ns before its deadline {}ns (expected a connection error)", c.deadline_ns));
                }
            }
            Outcome::Send => {
                let own_failed = wire.map_or(false, |w| failed_request_sends.contains(&w.0) && !w.2);
                if !own_failed {
                    return fail(format!("call {call} failed with a Send error although writing its own request did not fail"));
                }
            }
            Outcome::Channel(a) => match terminal {
                Some((tseq, t)) if tseq < *rseq => {
                    if a != t {
                        return fail(format!("call {call} failed with Channel({a}) but the transport failed during {t}"));
                    }
                }
                _ => return fail(format!("call {call} failed with Channel({a}) although no terminal transport failure preceded it")),
            },
            Outcome::Shutdown => {
                let cause = terminal.map(|t| t.0).or(eof).or(v.dispatch_end_seq);
                if cause.map_or(true, |s| s > *rseq) {
                    return fail(format!("call {call} failed with Shutdown although the connection was up (no failure, end-of-stream or dispatch end before it)"));
                }
            }
        }
        // a failed request write fails exactly that call
        if let Some((id, _, ok, _)) = wire {
            if !*ok && failed_request_sends.contains(id) && *out != Outcome::Send {
                // the caller may race: reply impossible, so only Send (or a connection error if the dispatch died) is right
                let conn = matches!(out, Outcome::Channel(_) | Outcome::Shutdown);
                if !conn {
                    return fail(format!("writing the request of call {call} failed but the call ended with {out:?}"));
                }
            }
        }
    }
    // at every quiescence after the dispatch ended nothing may be pending (fail fast, no hang)
    for r in &run.recs {
        let Ev::Quiescent { .. } = &r.ev else { continue };
        let q = r.seq;
        if v.dispatch_end_seq.map_or(false, |s| s < q) {
            for c in &run.calls {
                let live = c.created_seq < q
                    && run.states[c.call].resolved.as_ref().map_or(true, |x| x.0 > q)
                    && run.states[c.call].dropped.map_or(true, |x| x.0 > q);
                if live {
                    return fail(format!("call {} is pending at quiescence (seq {q}) after the dispatch ended: it hangs instead of failing fast", c.call));
                }
            }
        }
    }
    let mut classes: BTreeSet<&'static str> = BTreeSet::new();
    let mut stages = BTreeSet::new();
    if let Some((tseq, t)) = terminal {
        classes.insert(match t {
            "Ready" => "client:fault-ready",
            "Flush" => "client:fault-flush",
            "Close" => "client:fault-close",
            "Read" => "client:fault-read",
            _ => "client:fault-cancel-write",
        });
        for c in &run.calls {
            let live = c.created_seq < tseq
                && run.states[c.call].resolved.as_ref().map_or(true, |x| x.0 > tseq)
                && run.states[c.call].dropped.map_or(true, |x| x.0 > tseq);
            if live {
                match v.wire.get(&c.call) {
                    Some(w) if w.1 < tseq => {
                        stages.insert("in-flight");
                    }
                    _ => {
                        stages.insert("queued-or-blocked");
                    }
                }
            }
        }
    }
    if eof.is_some() {
        classes.insert("client:end-of-stream");
    }
    if !failed_request_sends.is_empty() {
        classes.insert("client:request-write-failed");
    }
    let nontrivial = terminal.is_some() && stages.len() >= 2;
    if nontrivial {
        classes.insert("client:fault-with-calls-in-2-stages");
    }
    Ok(CaseOk { nontrivial, classes: classes.into_iter().collect(), excluded_known: run.excluded_known })
}

pub fn strategy_client() -> proptest::strategy::BoxedStrategy<CScenario> {
    scenario_strategy(&client_profile())
}
