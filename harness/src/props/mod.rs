pub mod c01;
pub mod cgen;
pub mod cview;

use crate::sim::runner::{run_prop, RunArgs};

pub fn dispatch(id: &str, args: &RunArgs) -> i32 {
    match id {
        "C01" => run_prop(&c01::C01, args),
        _ => {
            eprintln!("unknown property id {id}");
            2
        }
    }
}
