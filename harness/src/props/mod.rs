pub mod c01;
pub mod c02;
pub mod c03;
pub mod c05;
pub mod c09;
pub mod c10;
pub mod c11;
pub mod c13;
pub mod wrap;
pub mod c14;
pub mod c15;
pub mod c16;
pub mod c17;
pub mod c19;
pub mod c20;
pub mod rawchan;
pub mod contract;
pub mod cgen;
pub mod chprops;
pub mod cview;
pub mod sgen;
pub mod sprops;
pub mod sview;

use crate::sim::runner::{run_prop, RunArgs};

pub fn dispatch(id: &str, args: &RunArgs) -> i32 {
    match id {
        "C01" => run_prop(&c01::C01, args),
        "C02" => run_prop(&c02::C02, args),
        "C03" => run_prop(&c03::C03, args),
        "C04" => run_prop(&wrap::C04, args),
        "C05" => run_prop(&c05::C05, args),
        "C06" => run_prop(&wrap::C06, args),
        "C07" => run_prop(&wrap::C07, args),
        "C08" => run_prop(&wrap::C08, args),
        "C15" => run_prop(&c15::C15, args),
        "C16" => run_prop(&c16::C16, args),
        "C17" => c17::run(args),
        "C18" => run_prop(&wrap::C18, args),
        "C12" => run_prop(&wrap::C12, args),
        "C09" => run_prop(&wrap::C09, args),
        "C10" => run_prop(&wrap::C10, args),
        "C11" => run_prop(&wrap::C11, args),
        "C13" => run_prop(&c13::C13, args),
        "C14" => run_prop(&c14::C14, args),
        "C19" => run_prop(&c19::C19, args),
        "C20" => run_prop(&c20::C20, args),
        _ => {
            eprintln!("unknown property id {id}");
            2
        }
    }
}
