//! C16 — No peer-supplied input can crash an endpoint.
//! Three layers: (1) bytes (mutated valid encodings, random bytes) into the codecs and through the
//! framed transport; (2) well-typed boundary messages, written as raw frames, into live endpoints
//! over the serde transport, mixed with valid traffic and followed by a probe; (3) local caller
//! deadlines. Every run in one of three subscriber modes (none, fmt, OpenTelemetry).

use super::c15::{msg_strategy, Body, MsgSpec};
use crate::engines::client::{new_runtime, subscriber_guard};
use crate::sim::clock;
use crate::sim::exec::{Exec, TaskState};
use crate::sim::pipe::{pipe, HalfRef};
use crate::sim::runner::{CaseOk, CaseResult, ExtraStats, Prop, Tier, Violation, Work};
use bincode::Options;
use futures::{Future, Stream};
use proptest::prelude::*;
use serde::{Deserialize, Serialize};
use serde_json::json;
use std::cell::RefCell;
use std::collections::VecDeque;
use std::pin::Pin;
use std::rc::Rc;
use std::task::{Context, Poll};
use std::time::{Duration, Instant};
use tarpc::server::{BaseChannel, Channel as _};
use tarpc::{ClientMessage, Response};

#[derive(Clone, Copy, Debug, Serialize, Deserialize, PartialEq, Eq)]
pub enum Codec {
    Json,
    Bincode,
}

// ------------------------------------------------------------------ mirror wire types (arbitrary durations)

#[derive(Serialize, Clone, Debug)]
enum WSampling {
    Sampled,
    Unsampled,
}
#[derive(Serialize, Clone, Debug)]
struct WTrace {
    trace_id: [u8; 16],
    span_id: u64,
    sampling_decision: WSampling,
}
#[derive(Serialize, Clone, Debug)]
struct WContext {
    deadline: Duration,
    trace_context: WTrace,
}
#[derive(Serialize, Clone, Debug)]
struct WRequest {
    context: WContext,
    id: u64,
    message: u64,
}
#[derive(Serialize, Clone, Debug)]
enum WClientMessage {
    Request(WRequest),
    Cancel { trace_context: WTrace, request_id: u64 },
}

#[derive(Serialize, Clone, Debug)]
struct WServerError {
    kind: u32,
    detail: String,
}
#[derive(Serialize, Clone, Debug)]
struct WResponse {
    request_id: u64,
    message: Result<u64, WServerError>,
}

fn wtrace(n: u64) -> WTrace {
    WTrace { trace_id: (n as u128 + 1).to_le_bytes(), span_id: n.wrapping_add(1), sampling_decision: if n % 2 == 0 { WSampling::Sampled } else { WSampling::Unsampled } }
}

fn encode<T: Serialize>(codec: Codec, v: &T) -> Vec<u8> {
    match codec {
        Codec::Json => serde_json::to_vec(v).expect("json"),
        Codec::Bincode => bincode::DefaultOptions::new().serialize(v).expect("bincode"),
    }
}

pub fn frame(payload: &[u8]) -> Vec<u8> {
    let mut f = (payload.len() as u32).to_be_bytes().to_vec();
    f.extend_from_slice(payload);
    f
}

/// The mirror types must encode exactly like tarpc's own (checked on every run).
pub fn mirror_self_test() -> Result<(), String> {
    clock::enable_and_reset();
    let now = Instant::now();
    let mut ctx = tarpc::context::current();
    ctx.deadline = now + Duration::new(12, 345);
    ctx.trace_context = tarpc::trace::Context {
        trace_id: tarpc::trace::TraceId::from(6u128),
        span_id: tarpc::trace::SpanId::from(6u64),
        sampling_decision: tarpc::trace::SamplingDecision::Unsampled,
    };
    let real = ClientMessage::Request(tarpc::Request { context: ctx, id: 9, message: 77u64 });
    let mirror = WClientMessage::Request(WRequest {
        context: WContext { deadline: Duration::new(12, 345), trace_context: wtrace(5) },
        id: 9,
        message: 77,
    });
    let real_c: ClientMessage<u64> = ClientMessage::Cancel { trace_context: ctx.trace_context, request_id: 3 };
    let mirror_c = WClientMessage::Cancel { trace_context: wtrace(5), request_id: 3 };
    let real_r: Response<u64> = Response { request_id: 4, message: Err(tarpc::ServerError::new(std::io::ErrorKind::TimedOut, "d".into())) };
    let mirror_r = WResponse { request_id: 4, message: Err(WServerError { kind: 13, detail: "d".into() }) };
    let mut r = Ok(());
    for codec in [Codec::Json, Codec::Bincode] {
        if encode(codec, &real_r) != encode(codec, &mirror_r) {
            r = Err(format!("harness self-test: mirror response type does not encode like tarpc's under {codec:?}"));
        }
        if encode(codec, &real) != encode(codec, &mirror) || encode(codec, &real_c) != encode(codec, &mirror_c) {
            r = Err(format!("harness self-test: mirror wire types do not encode like tarpc's under {codec:?}"));
        }
    }
    clock::disable();
    r
}

// ------------------------------------------------------------------ scenario types

#[derive(Clone, Copy, Debug, Serialize, Deserialize, PartialEq, Eq)]
pub struct Dur {
    pub secs: u64,
    pub nanos: u32,
}

#[derive(Clone, Debug, Serialize, Deserialize, PartialEq, Eq)]
pub enum SFrame {
    Request { id: u64, dur: Dur, body: u64 },
    Cancel { id: u64 },
    /// repeat the last request frame n times
    DupFlood { n: u8 },
    /// let virtual time pass
    Advance { ms: u32 },
    /// (RawFrames only) a Response frame whose error kind is chosen by the peer
    ErrResponse { id: u64, kind: u32 },
}

#[derive(Clone, Debug, Serialize, Deserialize, PartialEq, Eq)]
pub enum CFrame {
    /// make a call with this many seconds of deadline
    Call { secs: u64 },
    /// reply to the oldest unanswered call
    ReplyOldest,
    /// response for an id never used
    Stray { id: u64, err: bool },
    /// repeat the last response n times
    DupFlood { n: u8 },
    Advance { ms: u32 },
    /// answer the oldest unanswered call with an error whose wire kind is chosen by the peer
    ReplyErrKind { kind: u32 },
}

#[derive(Clone, Debug, Serialize, Deserialize, PartialEq, Eq)]
pub enum Mutation {
    BitFlip { pos: u16, bit: u8 },
    Truncate { keep: u16 },
    SetByte { pos: u16, val: u8 },
    /// overwrite a frame's 4-byte length prefix
    SetLen { frame: u8, val: u32 },
    Splice { from: u16, to: u16, len: u8 },
    Insert { pos: u16, bytes: Vec<u8> },
}

#[derive(Clone, Debug, Serialize, Deserialize, PartialEq, Eq)]
pub enum Sc16 {
    Bytes { codec: Codec, client_message: bool, base: Vec<MsgSpec>, mutations: Vec<Mutation>, random_tail: Vec<u8> },
    Server { codec: Codec, subscriber: u8, frames: Vec<SFrame> },
    Client { codec: Codec, subscriber: u8, frames: Vec<CFrame> },
    LocalDeadline { subscriber: u8, secs: u64, nanos: u32 },
    /// well-typed boundary frames straight into the decoders (no live endpoint behind them)
    RawFrames { codec: Codec, frames: Vec<SFrame> },
}

/// Largest span (s) that avoids the open finding F3 (timer wheel range 2^36 ms) given virtual age 0.
pub const F3_SAFE_SECS: u64 = 60_000_000;

// ------------------------------------------------------------------ known-finding signatures

pub fn classify_panic(msg: &str) -> Option<&'static str> {
    if msg.contains("invalid deadline") && msg.contains("server/in_flight_requests.rs") {
        return Some("delayqueue-range-server");
    }
    if msg.contains("invalid deadline") && msg.contains("client/in_flight_requests.rs") {
        return Some("delayqueue-range-client");
    }
    None
}

fn panic_violation(what: &str, msg: &str, sc: &Sc16) -> Violation {
    let v = Violation::new(format!("{what} panicked: {msg}")).with_detail(json!({"scenario": sc}));
    match classify_panic(msg) {
        Some(sig) => v.with_sig(sig),
        None => v,
    }
}

// ------------------------------------------------------------------ layer 1: bytes

pub fn real_frames(codec: Codec, client_message: bool, base: &[MsgSpec]) -> Vec<Vec<u8>> {
    let now = Instant::now();
    let mut out = vec![];
    for m in base {
        let payload = match m {
            MsgSpec::Request { id, body, deadline_off_us, trace } if client_message => {
                let mut ctx = tarpc::context::current();
                ctx.deadline = now + Duration::from_micros((*deadline_off_us).max(0) as u64);
                ctx.trace_context = crate::sim::hist::Tc { trace_id: ((trace.hi as u128) << 64) | trace.lo as u128, span_id: trace.span, sampled: trace.sampled }.to_tarpc();
                encode(codec, &ClientMessage::Request(tarpc::Request { context: ctx, id: *id, message: body.clone() }))
            }
            MsgSpec::Cancel { id, trace } if client_message => {
                let tc = crate::sim::hist::Tc { trace_id: ((trace.hi as u128) << 64) | trace.lo as u128, span_id: trace.span, sampled: trace.sampled }.to_tarpc();
                encode(codec, &ClientMessage::<Body>::Cancel { trace_context: tc, request_id: *id })
            }
            MsgSpec::Response { id, result } if !client_message => encode(
                codec,
                &Response {
                    request_id: *id,
                    message: match result {
                        Ok(b) => Ok(b.clone()),
                        Err((k, d)) => Err(tarpc::ServerError::new(super::c15::ALL_KINDS[*k as usize % super::c15::ALL_KINDS.len()], d.clone())),
                    },
                },
            ),
            _ => continue,
        };
        out.push(payload);
    }
    out
}

pub fn decode_direct(codec: Codec, client_message: bool, payload: &[u8]) -> Result<bool, String> {
    crate::sim::exec::catch(|| match (codec, client_message) {
        (Codec::Json, true) => serde_json::from_slice::<ClientMessage<Body>>(payload).is_ok(),
        (Codec::Json, false) => serde_json::from_slice::<Response<Body>>(payload).is_ok(),
        (Codec::Bincode, true) => bincode::DefaultOptions::new().deserialize::<ClientMessage<Body>>(payload).is_ok(),
        (Codec::Bincode, false) => bincode::DefaultOptions::new().deserialize::<Response<Body>>(payload).is_ok(),
    })
}

/// Feed a byte string through LengthDelimitedCodec + serde transport until end / error; returns (items, ended_with_error).
pub fn decode_via_transport(codec: Codec, client_message: bool, bytes: &[u8]) -> Result<(usize, bool), String> {
    crate::sim::exec::catch(|| {
        let (a, b) = pipe();
        {
            let mut h = a.tx.borrow_mut();
            h.auto_deliver = true;
            h.readable.extend(bytes.iter().copied());
            h.read_script = vec![7, 1, 200, 3];
        }
        drop(a); // writer gone: EOF after the bytes
        let w = futures::task::noop_waker();
        let mut cx = Context::from_waker(&w);
        macro_rules! run {
            ($item:ty, $sink:ty, $c:expr) => {{
                let t = tarpc::serde_transport::Transport::<_, $item, $sink, _>::from((b, $c));
                let mut t = Box::pin(t);
                let mut n = 0usize;
                let mut err = false;
                for _ in 0..200_000 {
                    match t.as_mut().poll_next(&mut cx) {
                        Poll::Ready(Some(Ok(_))) => n += 1,
                        Poll::Ready(Some(Err(_))) => {
                            err = true;
                            break;
                        }
                        Poll::Ready(None) => break,
                        Poll::Pending => {}
                    }
                }
                (n, err)
            }};
        }
        match (codec, client_message) {
            (Codec::Json, true) => run!(ClientMessage<Body>, Response<Body>, tokio_serde::formats::Json::<ClientMessage<Body>, Response<Body>>::default()),
            (Codec::Json, false) => run!(Response<Body>, ClientMessage<Body>, tokio_serde::formats::Json::<Response<Body>, ClientMessage<Body>>::default()),
            (Codec::Bincode, true) => run!(ClientMessage<Body>, Response<Body>, tokio_serde::formats::Bincode::<ClientMessage<Body>, Response<Body>>::default()),
            (Codec::Bincode, false) => run!(Response<Body>, ClientMessage<Body>, tokio_serde::formats::Bincode::<Response<Body>, ClientMessage<Body>>::default()),
        }
    })
}

fn apply_mutations(frames: &[Vec<u8>], muts: &[Mutation], tail: &[u8]) -> Vec<u8> {
    let mut starts = vec![];
    let mut bytes = vec![];
    for f in frames {
        starts.push(bytes.len());
        bytes.extend(frame(f));
    }
    bytes.extend_from_slice(tail);
    for m in muts {
        if bytes.is_empty() {
            break;
        }
        let n = bytes.len();
        match m {
            Mutation::BitFlip { pos, bit } => bytes[*pos as usize % n] ^= 1 << (bit % 8),
            Mutation::Truncate { keep } => bytes.truncate(*keep as usize % (n + 1)),
            Mutation::SetByte { pos, val } => bytes[*pos as usize % n] = *val,
            Mutation::SetLen { frame, val } => {
                if !starts.is_empty() {
                    let s = starts[*frame as usize % starts.len()];
                    if s + 4 <= bytes.len() {
                        bytes[s..s + 4].copy_from_slice(&val.to_be_bytes());
                    }
                }
            }
            Mutation::Splice { from, to, len } => {
                let (f, t, l) = (*from as usize % n, *to as usize % n, (*len as usize).min(n));
                let chunk: Vec<u8> = bytes.iter().cycle().skip(f).take(l).copied().collect();
                for (i, b) in chunk.into_iter().enumerate() {
                    if t + i < bytes.len() {
                        bytes[t + i] = b;
                    }
                }
            }
            Mutation::Insert { pos, bytes: ins } => {
                let p = *pos as usize % (n + 1);
                for (i, b) in ins.iter().enumerate() {
                    bytes.insert(p + i, *b);
                }
            }
        }
    }
    bytes
}

fn check_bytes(sc: &Sc16, codec: Codec, client_message: bool, base: &[MsgSpec], muts: &[Mutation], tail: &[u8]) -> CaseResult {
    clock::enable_and_reset();
    let frames = real_frames(codec, client_message, base);
    let bytes = apply_mutations(&frames, muts, tail);
    // (a) every (possibly mutated) frame payload straight into the codec
    let mut ok_direct = 0;
    let mut bad_direct = 0;
    let mut p = 0usize;
    while p + 4 <= bytes.len() {
        let l = u32::from_be_bytes([bytes[p], bytes[p + 1], bytes[p + 2], bytes[p + 3]]) as usize;
        let end = (p + 4 + l).min(bytes.len());
        match decode_direct(codec, client_message, &bytes[p + 4..end]) {
            Ok(true) => ok_direct += 1,
            Ok(false) => bad_direct += 1,
            Err(m) => {
                clock::disable();
                return Err(panic_violation(&format!("{codec:?} decoder (direct)"), &m, sc));
            }
        }
        if p + 4 + l > bytes.len() {
            break;
        }
        p += 4 + l;
    }
    // also the raw byte string as one payload
    if let Err(m) = decode_direct(codec, client_message, &bytes) {
        clock::disable();
        return Err(panic_violation(&format!("{codec:?} decoder (direct)"), &m, sc));
    }
    // (b) through the framed transport
    let r = decode_via_transport(codec, client_message, &bytes);
    clock::disable();
    match r {
        Err(m) => Err(panic_violation(&format!("framed {codec:?} transport"), &m, sc)),
        Ok((n, err)) => {
            let mut classes = vec![if codec == Codec::Json { "bytes:json" } else { "bytes:bincode" }];
            if err {
                classes.push("bytes:transport-error-item");
            }
            if n > 0 && (err || bad_direct > 0) {
                classes.push("bytes:decoded-some-then-failed");
            }
            let mutated = !muts.is_empty() || !tail.is_empty();
            let nontrivial = mutated && ((ok_direct > 0 && bad_direct > 0) || (n > 0 && err) || (mutated && n == frames.len() && n > 0));
            Ok(CaseOk { nontrivial, classes, excluded_known: 0 })
        }
    }
}

// ------------------------------------------------------------------ layer 2: live endpoints over the serde transport

fn push_bytes(h: &HalfRef, bytes: &[u8]) {
    let w = {
        let mut s = h.borrow_mut();
        s.readable.extend(bytes.iter().copied());
        s.read_waker.take()
    };
    if let Some(w) = w {
        w.wake();
    }
}

fn take_frames(h: &HalfRef) -> Vec<Vec<u8>> {
    let mut s = h.borrow_mut();
    let mut out = vec![];
    loop {
        if s.readable.len() < 4 {
            break;
        }
        let l = u32::from_be_bytes([s.readable[0], s.readable[1], s.readable[2], s.readable[3]]) as usize;
        if s.readable.len() < 4 + l {
            break;
        }
        let f: Vec<u8> = s.readable.drain(..4 + l).skip(4).collect();
        out.push(f);
    }
    out
}

async fn drain(exec: &Exec) -> Result<(), String> {
    let mut steps = 0;
    loop {
        loop {
            let w = exec.woken();
            if w.is_empty() {
                break;
            }
            if let crate::sim::exec::PollOut::Panicked(m) = exec.poll(w[0]) {
                return Err(m);
            }
            steps += 1;
            if steps > 200_000 {
                return Err("LIVELOCK".into());
            }
        }
        tokio::task::yield_now().await;
        if exec.woken().is_empty() {
            return Ok(());
        }
    }
}

type Spawned = Rc<RefCell<VecDeque<Pin<Box<dyn Future<Output = ()>>>>>>;

struct SrvConsumer<S: Stream<Item = Pin<Box<dyn Future<Output = ()>>>>> {
    s: Pin<Box<S>>,
    out: Spawned,
    ended: Rc<RefCell<bool>>,
}
impl<S: Stream<Item = Pin<Box<dyn Future<Output = ()>>>>> Future for SrvConsumer<S> {
    type Output = ();
    fn poll(mut self: Pin<&mut Self>, cx: &mut Context<'_>) -> Poll<()> {
        loop {
            match self.s.as_mut().poll_next(cx) {
                Poll::Ready(Some(f)) => self.out.borrow_mut().push_back(f),
                Poll::Ready(None) => {
                    *self.ended.borrow_mut() = true;
                    return Poll::Ready(());
                }
                Poll::Pending => return Poll::Pending,
            }
        }
    }
}

fn check_server(sc: &Sc16, codec: Codec, subscriber: u8, frames: &[SFrame]) -> CaseResult {
    clock::enable_and_reset();
    let _sub = subscriber_guard(subscriber);
    let rt = new_runtime();
    let res: Result<(bool, usize, usize), String> = rt.block_on(tokio::task::unconstrained(async {
        let (raw, srv) = pipe();
        raw.tx.borrow_mut().auto_deliver = true;
        srv.tx.borrow_mut().auto_deliver = true;
        let to_server = raw.tx.clone();
        let from_server = raw.rx.clone();
        let exec = Exec::new();
        let spawned: Spawned = Rc::new(RefCell::new(VecDeque::new()));
        let ended = Rc::new(RefCell::new(false));
        let handled = Rc::new(RefCell::new(0usize));
        let h2 = handled.clone();
        let serve = tarpc::server::serve(move |_ctx, x: u64| {
            let h = h2.clone();
            async move {
                *h.borrow_mut() += 1;
                Ok(x.wrapping_add(1))
            }
        });
        macro_rules! start {
            ($codec:expr) => {{
                let t = tarpc::serde_transport::Transport::<_, ClientMessage<u64>, Response<u64>, _>::from((srv, $codec));
                let s = BaseChannel::with_defaults(t).execute(serve);
                let s = futures::StreamExt::map(s, |f| Box::pin(f) as Pin<Box<dyn Future<Output = ()>>>);
                exec.spawn("consumer", Box::pin(SrvConsumer { s: Box::pin(s), out: spawned.clone(), ended: ended.clone() }));
            }};
        }
        match codec {
            Codec::Json => start!(tokio_serde::formats::Json::<ClientMessage<u64>, Response<u64>>::default()),
            Codec::Bincode => start!(tokio_serde::formats::Bincode::<ClientMessage<u64>, Response<u64>>::default()),
        }
        let run = |exec: &Exec| {
            // spawn handlers produced by the consumer
            while let Some(f) = spawned.borrow_mut().pop_front() {
                exec.spawn("handler", f);
            }
        };
        let mut last_req: Option<Vec<u8>> = None;
        let mut boundary = 0usize;
        for f in frames {
            match f {
                SFrame::Request { id, dur, body } => {
                    let m = WClientMessage::Request(WRequest {
                        context: WContext { deadline: Duration::new(dur.secs, dur.nanos % 1_000_000_000), trace_context: wtrace(*id) },
                        id: *id,
                        message: *body,
                    });
                    if dur.secs > 100_000 || *id == u64::MAX || *id == 0 {
                        boundary += 1;
                    }
                    let fr = frame(&encode(codec, &m));
                    push_bytes(&to_server, &fr);
                    last_req = Some(fr);
                }
                SFrame::Cancel { id } => {
                    boundary += 1;
                    push_bytes(&to_server, &frame(&encode(codec, &WClientMessage::Cancel { trace_context: wtrace(*id), request_id: *id })));
                }
                SFrame::DupFlood { n } => {
                    if let Some(fr) = &last_req {
                        boundary += 1;
                        for _ in 0..*n {
                            push_bytes(&to_server, fr);
                        }
                    }
                }
                SFrame::Advance { ms } => clock::advance(Duration::from_millis(*ms as u64)).await,
                SFrame::ErrResponse { .. } => {}
            }
            for _ in 0..4 {
                drain(&exec).await?;
                run(&exec);
                if exec.woken().is_empty() {
                    break;
                }
            }
        }
        // probe: the connection keeps serving well-formed traffic
        let _ = take_frames(&from_server);
        let probe_id = 0x5EED_0000_0000_0001u64;
        let m = WClientMessage::Request(WRequest { context: WContext { deadline: Duration::from_secs(10), trace_context: wtrace(1) }, id: probe_id, message: 41 });
        push_bytes(&to_server, &frame(&encode(codec, &m)));
        for _ in 0..6 {
            drain(&exec).await?;
            run(&exec);
            if exec.woken().is_empty() {
                break;
            }
        }
        let mut answered = false;
        for fr in take_frames(&from_server) {
            let r: Option<Response<u64>> = match codec {
                Codec::Json => serde_json::from_slice(&fr).ok(),
                Codec::Bincode => bincode::DefaultOptions::new().deserialize(&fr).ok(),
            };
            if let Some(r) = r {
                if r.request_id == probe_id && r.message == Ok(42) {
                    answered = true;
                }
            }
        }
        let stream_ended = *ended.borrow();
        let alive = exec.state(0) == TaskState::Alive;
        exec.drop_all();
        drop(raw);
        if !answered {
            return Err(format!(
                "PROBE: after the peer's well-formed but unusual messages a fresh well-formed request was not served (consumer alive: {alive}, stream ended: {stream_ended}, handlers run: {})",
                handled.borrow()
            ));
        }
        let handled_n = *handled.borrow();
        Ok((answered, boundary, handled_n))
    }));
    drop(rt);
    clock::disable();
    match res {
        Ok((_, boundary, _)) => Ok(CaseOk {
            nontrivial: boundary > 0,
            classes: vec![match subscriber {
                0 => "server:no-subscriber",
                1 => "server:fmt-subscriber",
                _ => "server:otel-subscriber",
            }],
            excluded_known: 0,
        }),
        Err(m) if m.starts_with("PROBE:") => Err(Violation::new(format!("server: {}", &m[7..])).with_detail(json!({"scenario": sc}))),
        Err(m) if m == "LIVELOCK" => Err(Violation::new("server: livelock while handling peer messages").with_detail(json!({"scenario": sc}))),
        Err(m) => Err(panic_violation("server channel (peer-supplied message)", &m, sc)),
    }
}

fn check_client(sc: &Sc16, codec: Codec, subscriber: u8, frames: &[CFrame]) -> CaseResult {
    clock::enable_and_reset();
    let _sub = subscriber_guard(subscriber);
    let rt = new_runtime();
    let res: Result<usize, String> = rt.block_on(tokio::task::unconstrained(async {
        let (raw, cli) = pipe();
        raw.tx.borrow_mut().auto_deliver = true;
        cli.tx.borrow_mut().auto_deliver = true;
        let to_client = raw.tx.clone();
        let from_client = raw.rx.clone();
        let exec = Exec::new();
        let results: Rc<RefCell<Vec<(u64, String)>>> = Rc::new(RefCell::new(vec![]));
        let client = match codec {
            Codec::Json => {
                let t = tarpc::serde_transport::Transport::<_, Response<u64>, ClientMessage<u64>, _>::from((cli, tokio_serde::formats::Json::<Response<u64>, ClientMessage<u64>>::default()));
                let tarpc::client::NewClient { client, dispatch } = tarpc::client::new(tarpc::client::Config::default(), t);
                exec.spawn("dispatch", Box::pin(async move { let _ = dispatch.await; }));
                client
            }
            Codec::Bincode => {
                let t = tarpc::serde_transport::Transport::<_, Response<u64>, ClientMessage<u64>, _>::from((cli, tokio_serde::formats::Bincode::<Response<u64>, ClientMessage<u64>>::default()));
                let tarpc::client::NewClient { client, dispatch } = tarpc::client::new(tarpc::client::Config::default(), t);
                exec.spawn("dispatch", Box::pin(async move { let _ = dispatch.await; }));
                client
            }
        };
        let client = Rc::new(client);
        let mut seen_requests: VecDeque<u64> = VecDeque::new(); // ids the raw peer has seen and not answered
        let mut last_resp: Option<Vec<u8>> = None;
        let mut boundary = 0usize;
        let mut body = 100u64;
        let mut collect = |seen: &mut VecDeque<u64>| {
            for fr in take_frames(&from_client) {
                let v: Option<ClientMessage<u64>> = match codec {
                    Codec::Json => serde_json::from_slice(&fr).ok(),
                    Codec::Bincode => bincode::DefaultOptions::new().deserialize(&fr).ok(),
                };
                if let Some(ClientMessage::Request(r)) = v {
                    seen.push_back(r.id);
                }
            }
        };
        let enc_resp = |id: u64, err: bool| -> Vec<u8> {
            let r: Response<u64> = Response {
                request_id: id,
                message: if err { Err(tarpc::ServerError::new(std::io::ErrorKind::Other, "x".into())) } else { Ok(id.wrapping_mul(3)) },
            };
            frame(&encode(codec, &r))
        };
        for f in frames {
            match f {
                CFrame::Call { secs } => {
                    let c = client.clone();
                    let res = results.clone();
                    body += 1;
                    let b = body;
                    let mut ctx = tarpc::context::current();
                    ctx.deadline = Instant::now() + Duration::from_secs(*secs);
                    exec.spawn("call", Box::pin(async move {
                        let r = c.call(ctx, b).await;
                        res.borrow_mut().push((b, format!("{r:?}")));
                    }));
                }
                CFrame::ReplyOldest => {
                    if let Some(id) = seen_requests.pop_front() {
                        let fr = enc_resp(id, false);
                        push_bytes(&to_client, &fr);
                        last_resp = Some(fr);
                    }
                }
                CFrame::Stray { id, err } => {
                    boundary += 1;
                    let fr = enc_resp(*id, *err);
                    push_bytes(&to_client, &fr);
                    last_resp = Some(fr);
                }
                CFrame::DupFlood { n } => {
                    if let Some(fr) = &last_resp {
                        boundary += 1;
                        for _ in 0..*n {
                            push_bytes(&to_client, fr);
                        }
                    }
                }
                CFrame::Advance { ms } => clock::advance(Duration::from_millis(*ms as u64)).await,
                CFrame::ReplyErrKind { kind } => {
                    if let Some(id) = seen_requests.pop_front() {
                        boundary += 1;
                        let fr = frame(&encode(codec, &WResponse { request_id: id, message: Err(WServerError { kind: *kind, detail: "k".into() }) }));
                        push_bytes(&to_client, &fr);
                        last_resp = Some(fr);
                    }
                }
            }
            drain(&exec).await?;
            collect(&mut seen_requests);
        }
        // probe: a fresh call gets its own reply
        let c = client.clone();
        let probe: Rc<RefCell<Option<String>>> = Rc::new(RefCell::new(None));
        let p2 = probe.clone();
        let mut ctx = tarpc::context::current();
        ctx.deadline = Instant::now() + Duration::from_secs(30);
        exec.spawn("probe", Box::pin(async move {
            let r = c.call(ctx, 999_999).await;
            *p2.borrow_mut() = Some(format!("{r:?}"));
        }));
        drain(&exec).await?;
        let mut probe_id = None;
        for fr in take_frames(&from_client) {
            let v: Option<ClientMessage<u64>> = match codec {
                Codec::Json => serde_json::from_slice(&fr).ok(),
                Codec::Bincode => bincode::DefaultOptions::new().deserialize(&fr).ok(),
            };
            if let Some(ClientMessage::Request(r)) = v {
                if r.message == 999_999 {
                    probe_id = Some(r.id);
                }
            }
        }
        let dispatch_alive = exec.state(0) == TaskState::Alive;
        let Some(pid) = probe_id else {
            exec.drop_all();
            return Err(format!("PROBE: a fresh call's request never reached the wire after the peer's unusual responses (dispatch alive: {dispatch_alive}, probe result: {:?})", probe.borrow()));
        };
        push_bytes(&to_client, &enc_resp(pid, false));
        drain(&exec).await?;
        let got = probe.borrow().clone();
        exec.drop_all();
        drop(raw);
        let want = format!("Ok({})", pid.wrapping_mul(3));
        if got.as_deref() != Some(want.as_str()) {
            return Err(format!("PROBE: a fresh call after the peer's unusual responses returned {got:?}, expected {want}"));
        }
        Ok(boundary)
    }));
    drop(rt);
    clock::disable();
    match res {
        Ok(boundary) => Ok(CaseOk {
            nontrivial: boundary > 0,
            classes: vec![match subscriber {
                0 => "client:no-subscriber",
                1 => "client:fmt-subscriber",
                _ => "client:otel-subscriber",
            }],
            excluded_known: 0,
        }),
        Err(m) if m.starts_with("PROBE:") => Err(Violation::new(format!("client: {}", &m[7..])).with_detail(json!({"scenario": sc}))),
        Err(m) if m == "LIVELOCK" => Err(Violation::new("client: livelock while handling peer messages").with_detail(json!({"scenario": sc}))),
        Err(m) => Err(panic_violation("client dispatch / caller (peer-supplied response)", &m, sc)),
    }
}

/// Layer 3: a deadline placed by a local caller must not crash the *dispatch*.
fn check_local_deadline(sc: &Sc16, subscriber: u8, secs: u64, nanos: u32) -> CaseResult {
    clock::enable_and_reset();
    let _sub = subscriber_guard(subscriber);
    let rt = new_runtime();
    let res: Result<bool, String> = rt.block_on(tokio::task::unconstrained(async {
        let (tx, _rx) = tarpc::transport::channel::unbounded::<Response<u64>, ClientMessage<u64>>();
        let tarpc::client::NewClient { client, dispatch } = tarpc::client::new(tarpc::client::Config::default(), tx);
        let exec = Exec::new();
        let d = exec.spawn("dispatch", Box::pin(async move { let _ = dispatch.await; }));
        let Some(deadline) = Instant::now().checked_add(Duration::new(secs, nanos % 1_000_000_000)) else {
            return Ok(false); // the caller cannot even construct this Instant
        };
        let mut ctx = tarpc::context::current();
        ctx.deadline = deadline;
        let c = exec.spawn("call", Box::pin(async move { let _ = client.call(ctx, 1).await; }));
        // poll by hand so that a panic in the caller's own task (not the dispatch) is told apart
        let mut steps = 0;
        loop {
            let w = exec.woken();
            if w.is_empty() {
                tokio::task::yield_now().await;
                if exec.woken().is_empty() {
                    break;
                }
                continue;
            }
            let t = w[0];
            if let crate::sim::exec::PollOut::Panicked(m) = exec.poll(t) {
                if t == d {
                    return Err(m);
                }
                // a panic in the caller's own call() is outside the statement (it concerns the dispatch)
                let _ = c;
            }
            steps += 1;
            if steps > 10_000 {
                return Err("LIVELOCK".into());
            }
        }
        exec.drop_all();
        Ok(true)
    }));
    drop(rt);
    clock::disable();
    match res {
        Ok(constructible) => Ok(CaseOk { nontrivial: constructible && secs > 100_000, classes: vec!["local-deadline"], excluded_known: 0 }),
        Err(m) if m == "LIVELOCK" => Err(Violation::new("client dispatch: livelock with a caller-chosen deadline").with_detail(json!({"scenario": sc}))),
        Err(m) => Err(panic_violation("client dispatch (caller-chosen deadline)", &m, sc)),
    }
}

pub fn check(sc: &Sc16) -> CaseResult {
    match sc {
        Sc16::Bytes { codec, client_message, base, mutations, random_tail } => check_bytes(sc, *codec, *client_message, base, mutations, random_tail),
        Sc16::Server { codec, subscriber, frames } => check_server(sc, *codec, *subscriber, frames),
        Sc16::Client { codec, subscriber, frames } => check_client(sc, *codec, *subscriber, frames),
        Sc16::LocalDeadline { subscriber, secs, nanos } => check_local_deadline(sc, *subscriber, *secs, *nanos),
        Sc16::RawFrames { codec, frames } => check_raw_frames(sc, *codec, frames),
    }
}

fn check_raw_frames(sc: &Sc16, codec: Codec, frames: &[SFrame]) -> CaseResult {
    clock::enable_and_reset();
    let mut bytes = vec![];
    let mut n_frames = 0usize;
    let mut boundary = 0usize;
    for f in frames {
        let payload = match f {
            SFrame::Request { id, dur, body } => {
                if dur.secs > 100_000 {
                    boundary += 1;
                }
                encode(
                    codec,
                    &WClientMessage::Request(WRequest {
                        context: WContext { deadline: Duration::new(dur.secs, dur.nanos % 1_000_000_000), trace_context: wtrace(*id) },
                        id: *id,
                        message: *body,
                    }),
                )
            }
            SFrame::Cancel { id } => encode(codec, &WClientMessage::Cancel { trace_context: wtrace(*id), request_id: *id }),
            SFrame::ErrResponse { id, kind } => {
                // decoded as a Response: every kind value must be understood (unknown ones as Other)
                let payload = encode(codec, &WResponse { request_id: *id, message: Err(WServerError { kind: *kind, detail: "k".into() }) });
                boundary += 1;
                match crate::sim::exec::catch(|| match codec {
                    Codec::Json => serde_json::from_slice::<Response<u64>>(&payload).map(|r| r.message.is_err()).unwrap_or(false),
                    Codec::Bincode => bincode::DefaultOptions::new().deserialize::<Response<u64>>(&payload).map(|r| r.message.is_err()).unwrap_or(false),
                }) {
                    Ok(true) => {}
                    Ok(false) => {
                        clock::disable();
                        return Err(Violation::new(format!("{codec:?} decoder rejected a well-formed error response with wire kind {kind}")).with_detail(json!({"scenario": sc})));
                    }
                    Err(m) => {
                        clock::disable();
                        return Err(panic_violation(&format!("{codec:?} decoder on an error response with wire kind {kind}"), &m, sc));
                    }
                }
                continue;
            }
            _ => continue,
        };
        match crate::sim::exec::catch(|| match codec {
            Codec::Json => serde_json::from_slice::<ClientMessage<u64>>(&payload).is_ok(),
            Codec::Bincode => bincode::DefaultOptions::new().deserialize::<ClientMessage<u64>>(&payload).is_ok(),
        }) {
            Ok(true) => {}
            Ok(false) => {
                clock::disable();
                return Err(Violation::new(format!("{codec:?} decoder rejected a well-formed {f:?}")).with_detail(json!({"scenario": sc})));
            }
            Err(m) => {
                clock::disable();
                return Err(panic_violation(&format!("{codec:?} decoder on a well-formed frame {f:?}"), &m, sc));
            }
        }
        bytes.extend(frame(&payload));
        n_frames += 1;
    }
    let r = crate::sim::exec::catch(|| {
        let (a, b) = pipe();
        {
            let mut h = a.tx.borrow_mut();
            h.auto_deliver = true;
            h.readable.extend(bytes.iter().copied());
        }
        drop(a);
        let w = futures::task::noop_waker();
        let mut cx = Context::from_waker(&w);
        macro_rules! run {
            ($c:expr) => {{
                let t = tarpc::serde_transport::Transport::<_, ClientMessage<u64>, Response<u64>, _>::from((b, $c));
                let mut t = Box::pin(t);
                let mut n = 0usize;
                let mut err = false;
                for _ in 0..100_000 {
                    match t.as_mut().poll_next(&mut cx) {
                        Poll::Ready(Some(Ok(_))) => n += 1,
                        Poll::Ready(Some(Err(_))) => {
                            err = true;
                            break;
                        }
                        Poll::Ready(None) => break,
                        Poll::Pending => {}
                    }
                }
                (n, err)
            }};
        }
        match codec {
            Codec::Json => run!(tokio_serde::formats::Json::<ClientMessage<u64>, Response<u64>>::default()),
            Codec::Bincode => run!(tokio_serde::formats::Bincode::<ClientMessage<u64>, Response<u64>>::default()),
        }
    });
    clock::disable();
    match r {
        Err(m) => Err(panic_violation(&format!("framed {codec:?} transport on well-formed boundary frames"), &m, sc)),
        Ok((n, err)) => {
            if err || n != n_frames {
                return Err(Violation::new(format!("framed {codec:?} transport yielded {n} of {n_frames} well-formed frames (error: {err})")).with_detail(json!({"scenario": sc})));
            }
            Ok(CaseOk { nontrivial: boundary > 0, classes: vec!["raw-boundary-frames"], excluded_known: 0 })
        }
    }
}

// ------------------------------------------------------------------ generators

fn codec_strategy() -> BoxedStrategy<Codec> {
    prop_oneof![Just(Codec::Json), Just(Codec::Bincode)].boxed()
}

/// Boundary durations. With `full = false` spans stay below the timer wheel's range (open finding F3).
fn dur_strategy(full: bool) -> BoxedStrategy<Dur> {
    let safe = prop_oneof![
        Just(0u64),
        Just(1u64),
        Just(10u64),
        0u64..100_000,
        Just(F3_SAFE_SECS),
        (31_536_000u64..F3_SAFE_SECS),
    ];
    let secs: BoxedStrategy<u64> = if full {
        prop_oneof![
            40 => safe,
            1 => Just(68_719_476u64),
            1 => Just(68_719_477u64),
            1 => Just(3 * 31_557_600u64),
            1 => Just(30 * 31_557_600u64),
            1 => Just(9_000 * 31_557_600u64),
            1 => Just(10_000 * 31_557_600u64),
            1 => Just(i64::MAX as u64),
            1 => Just(u64::MAX),
            1 => Just(u64::MAX / 1000),
            1 => any::<u64>(),
        ]
        .boxed()
    } else {
        safe.boxed()
    };
    (secs, prop_oneof![Just(0u32), Just(999_999_999u32), any::<u32>()]).prop_map(|(secs, nanos)| Dur { secs, nanos }).boxed()
}

fn id16() -> BoxedStrategy<u64> {
    prop_oneof![Just(0u64), Just(u64::MAX), Just(u64::MAX - 1), 0u64..6, Just(1u64 << 63), any::<u64>()].boxed()
}

pub fn strategy(full_range: bool) -> BoxedStrategy<Sc16> {
    let mutation = prop_oneof![
        4 => (any::<u16>(), 0u8..8).prop_map(|(pos, bit)| Mutation::BitFlip { pos, bit }),
        2 => any::<u16>().prop_map(|keep| Mutation::Truncate { keep }),
        3 => (any::<u16>(), prop_oneof![Just(0u8), Just(255u8), any::<u8>()]).prop_map(|(pos, val)| Mutation::SetByte { pos, val }),
        2 => (any::<u8>(), prop_oneof![Just(0u32), Just(1u32), Just(u32::MAX), Just(8 * 1024 * 1024), Just(8 * 1024 * 1024 + 1), 0u32..200, any::<u32>()])
            .prop_map(|(frame, val)| Mutation::SetLen { frame, val }),
        2 => (any::<u16>(), any::<u16>(), 1u8..32).prop_map(|(from, to, len)| Mutation::Splice { from, to, len }),
        1 => (any::<u16>(), proptest::collection::vec(any::<u8>(), 1..12)).prop_map(|(pos, bytes)| Mutation::Insert { pos, bytes }),
    ];
    let bytes = (
        codec_strategy(),
        any::<bool>(),
        proptest::collection::vec(msg_strategy(), 0..5),
        proptest::collection::vec(mutation, 0..6),
        prop_oneof![3 => Just(vec![]), 1 => proptest::collection::vec(any::<u8>(), 0..64)],
    )
        .prop_map(|(codec, client_message, base, mutations, random_tail)| Sc16::Bytes { codec, client_message, base, mutations, random_tail });
    let sframe = prop_oneof![
        6 => (id16(), dur_strategy(full_range), any::<u64>()).prop_map(|(id, dur, body)| SFrame::Request { id, dur, body }),
        2 => id16().prop_map(|id| SFrame::Cancel { id }),
        1 => (1u8..40).prop_map(|n| SFrame::DupFlood { n }),
        1 => (0u32..5_000).prop_map(|ms| SFrame::Advance { ms }),
    ];
    let server = (codec_strategy(), 0u8..3, proptest::collection::vec(sframe, 0..14))
        .prop_map(|(codec, subscriber, frames)| Sc16::Server { codec, subscriber, frames });
    let cframe = prop_oneof![
        4 => prop_oneof![Just(10u64), 0u64..100, Just(F3_SAFE_SECS)].prop_map(|secs| CFrame::Call { secs }),
        3 => Just(CFrame::ReplyOldest),
        3 => (id16(), any::<bool>()).prop_map(|(id, err)| CFrame::Stray { id, err }),
        2 => prop_oneof![0u32..24, Just(255u32), Just(u32::MAX), Just(1u32 << 31), any::<u32>()].prop_map(|kind| CFrame::ReplyErrKind { kind }),
        1 => (1u8..40).prop_map(|n| CFrame::DupFlood { n }),
        1 => (0u32..5_000).prop_map(|ms| CFrame::Advance { ms }),
    ];
    let client = (codec_strategy(), 0u8..3, proptest::collection::vec(cframe, 0..14))
        .prop_map(|(codec, subscriber, frames)| Sc16::Client { codec, subscriber, frames });
    let local = (0u8..3, dur_strategy(full_range)).prop_map(|(subscriber, d)| Sc16::LocalDeadline { subscriber, secs: d.secs, nanos: d.nanos });
    let raw = (codec_strategy(), proptest::collection::vec(
        prop_oneof![
            6 => (id16(), dur_strategy(true), any::<u64>()).prop_map(|(id, dur, body)| SFrame::Request { id, dur, body }),
            1 => id16().prop_map(|id| SFrame::Cancel { id }),
            3 => (id16(), prop_oneof![0u32..24, Just(255u32), Just(u32::MAX), any::<u32>()]).prop_map(|(id, kind)| SFrame::ErrResponse { id, kind }),
        ],
        0..8,
    ))
        .prop_map(|(codec, frames)| Sc16::RawFrames { codec, frames });
    prop_oneof![5 => bytes, 4 => server, 3 => client, 1 => local, 2 => raw].boxed()
}

pub struct C16;
impl Prop for C16 {
    type Scenario = Sc16;
    fn id(&self) -> &'static str {
        "C16"
    }
    fn rule(&self) -> String {
        "Four scenario kinds. Bytes: 0-5 valid encodings (C15's message generator, JSON or bincode) concatenated as frames, then up to 6 mutations (bit flips, truncation, byte sets, length-prefix edits incl. 0/max/8MiB+1, splices, insertions) and an optional random tail, fed (a) frame by frame straight into the codec and (b) through LengthDelimitedCodec + the serde transport on a fragmenting pipe until end/error. \
         Server: a live BaseChannel::execute over the serde transport receives raw frames built from mirror wire types (so the peer chooses any duration): ids {0, u64::MAX, 2^63, small, random}, deadlines from 0 to the numeric limits (2^36 ms +-1, 3/30/9000/10000 years, i64::MAX s, u64::MAX s, any nanos), cancels for unknown ids, floods of duplicates, time advances; then a probe request must be served. \
         Client: a live dispatch over the serde transport with calls, replies, responses for ids never used (incl. 0 and u64::MAX), duplicate floods; then a probe call must get its own reply. LocalDeadline: a caller-chosen deadline up to the largest constructible Instant must not crash the dispatch. \
         Every live run in one of three subscriber modes (none, fmt, OpenTelemetry). Oracle: no panic anywhere (signature-matched against the open findings file), malformed input yields an error item or end-of-stream, the probe succeeds. \
         RawFrames: the same boundary frames straight into the decoders and the framed transport, where every frame must decode. About one generated duration in five lies beyond the timer wheel's range (open finding F3); those hits are recognised by panic signature and counted, fixed probes reproduce them. Non-trivial = a mutated input that partly decoded, or a live run with >=1 boundary-valued message; distinct = distinct scenario JSON."
            .into()
    }
    fn assumptions(&self) -> Vec<String> {
        vec!["mirror wire types are byte-compatible with tarpc's (self-test on every run)".into()]
    }
    fn work(&self, tier: Tier) -> Work {
        match tier {
            Tier::Quick => Work { cases_per_worker: 3750, workers: 8 },
            Tier::Thorough => Work { cases_per_worker: 80000, workers: 16 },
        }
    }
    fn strategy(&self, _tier: Tier) -> BoxedStrategy<Sc16> {
        // the full range is always generated (about one duration in five lies beyond the timer
        // wheel's range); hits of an open finding are matched by panic signature and counted
        strategy(true)
    }
    fn run_case(&self, sc: &Sc16) -> CaseResult {
        check(sc)
    }
    fn probes(&self) -> Vec<(String, String, Sc16)> {
        vec![
            (
                "delayqueue-range-server".into(),
                "a request whose deadline is more than 2^36 ms (~2.18 years) away panics the server channel".into(),
                Sc16::Server { codec: Codec::Bincode, subscriber: 0, frames: vec![SFrame::Request { id: 1, dur: Dur { secs: 3 * 31_557_600, nanos: 0 }, body: 1 }] },
            ),
            (
                "delayqueue-range-client".into(),
                "a call whose deadline is more than 2^36 ms (~2.18 years) away panics the client dispatch".into(),
                Sc16::LocalDeadline { subscriber: 0, secs: 3 * 31_557_600, nanos: 0 },
            ),
        ]
    }
    fn extra(&self, _tier: Tier, _seed: u64) -> Result<ExtraStats, Violation> {
        mirror_self_test().map_err(Violation::new)?;
        Ok(ExtraStats::default())
    }
}
