//! Engine R: the raw `BaseChannel` used as a `Stream` of `TrackedRequest`s and a `Sink` of `Response`s
//! (the "third way" of using a channel, §8 of DESIGN.md), against an *exact* reference model.
//!
//! Without `Requests` in between there are no response buffers, no handler guards and no internal
//! cancellations: what the channel tracks is a pure function of the messages read, the responses
//! handed to `start_send` and the clock, so every poll result, the in-flight count, the timer count and
//! every abort flag can be predicted exactly. The only uncertainty is the timer granule: a poll at
//! D <= t < D + 2 ms may or may not see the request expired; such a poll ends the case (counted).
//!
//! One divergence ends the case and is attributed to the property whose sentence it contradicts
//! (`Div::prop`); the wrapper of property P reports only divergences attributed to P.

use crate::engines::client::{new_runtime, subscriber_guard, Dl, SUPPORTED_SPAN_SECS};
use crate::sim::clock;
use crate::sim::hist::Hist;
use crate::sim::runner::{CaseOk, CaseResult, Violation};
use crate::sim::transport::{sim_transport, UNLIMITED};
use futures::future::{pending, Abortable, Pending};
use futures::task::{waker, ArcWake};
use futures::{Sink, Stream};
use proptest::prelude::*;
use serde::{Deserialize, Serialize};
use serde_json::json;
use std::collections::{BTreeMap, VecDeque};
use std::sync::atomic::{AtomicBool, Ordering};
use std::sync::Arc;
use std::task::{Context, Poll};
use std::time::Duration;
use tarpc::server::{BaseChannel, Channel};
use tarpc::{ClientMessage, Request, Response};

#[derive(Clone, Debug, Serialize, Deserialize, PartialEq, Eq)]
pub enum ROp {
    /// poll the stream once; `force` = poll even though nothing woke the task (a spurious poll is legal)
    Poll { force: bool },
    /// poll while woken or while the stream keeps yielding
    Drain,
    Req { id_sel: u8, dl: Dl },
    Cancel { id_sel: u8 },
    /// the application answers: poll_ready, start_send(Response{id}), optionally poll_flush;
    /// `fail`: the transport rejects exactly this item (one-shot start_send failure, e.g. an unencodable
    /// frame) and the application goes on using the channel
    Respond {
        id_sel: u8,
        flush: bool,
        #[serde(default)]
        fail: bool,
    },
    Flush,
    Advance { us: u64 },
    /// advance so that the clock lands at (deadline of a tracked request) + delta_us
    AdvanceTo { sel: u16, delta_us: i32 },
    Budget { n: u8 },
    PeerClose,
}

#[derive(Clone, Debug, Serialize, Deserialize, PartialEq, Eq)]
pub struct RawScenario {
    pub cap: usize,
    pub independent: bool,
    pub subscriber: u8,
    pub ops: Vec<ROp>,
}

const IDS: [u64; 8] = [0, 1, 2, 3, 4, 5, u64::MAX, 1 << 40];
const GRANULE_NS: i128 = 2_000_000;

/// id_sel < 8: a fixed id; >= 8: one of the ids the model has tracked right now (falls back to a fixed id)
fn pick_id(id_sel: u8, tracked: &BTreeMap<u64, (u64, i128, i128)>) -> u64 {
    if id_sel >= 8 && !tracked.is_empty() {
        let k: Vec<u64> = tracked.keys().copied().collect();
        k[(id_sel as usize - 8) % k.len()]
    } else {
        IDS[id_sel as usize % IDS.len()]
    }
}

#[derive(Clone, Debug)]
enum In {
    Req { id: u64, body: u64, deadline_ns: i128 },
    Cancel { id: u64 },
}

#[derive(Clone, Debug, PartialEq, Eq)]
enum Expect {
    Yield { id: u64, body: u64 },
    End,
    Pending,
}

#[derive(Clone, Debug, PartialEq, Eq)]
enum EndedBy {
    Response,
    Cancel,
    Expiry,
}

#[derive(Clone)]
struct Model {
    inbound: VecDeque<In>,
    closed: bool,
    /// id -> (body of the accepted instance, deadline, max(deadline, time it was read): the timer is armed at the read)
    tracked: BTreeMap<u64, (u64, i128, i128)>,
    /// body -> how the instance ended
    ended: BTreeMap<u64, EndedBy>,
    ambiguous: bool,
    dups_ignored: u32,
    expired: u32,
    cancelled: u32,
}

impl Model {
    fn expire(&mut self, now: i128) {
        let ids: Vec<u64> = self.tracked.keys().copied().collect();
        for id in ids {
            let (body, d, armed) = self.tracked[&id];
            if now >= armed + GRANULE_NS {
                self.tracked.remove(&id);
                self.ended.insert(body, EndedBy::Expiry);
                self.expired += 1;
            } else if now >= d {
                self.ambiguous = true;
            }
        }
    }
    /// What one `poll_next` at virtual time `now` does and returns.
    fn poll(&mut self, now: i128) -> Expect {
        loop {
            self.expire(now);
            if self.ambiguous {
                return Expect::Pending;
            }
            match self.inbound.pop_front() {
                Some(In::Req { id, body, deadline_ns }) => {
                    if self.tracked.contains_key(&id) {
                        self.dups_ignored += 1;
                        continue;
                    }
                    self.tracked.insert(id, (body, deadline_ns, deadline_ns.max(now)));
                    return Expect::Yield { id, body };
                }
                Some(In::Cancel { id }) => {
                    if let Some((body, _, _)) = self.tracked.remove(&id) {
                        self.ended.insert(body, EndedBy::Cancel);
                        self.cancelled += 1;
                    }
                    continue;
                }
                None if self.closed => {
                    return if self.tracked.is_empty() { Expect::End } else { Expect::Pending };
                }
                None => return Expect::Pending,
            }
        }
    }
    /// End of the window in which a poll could not be predicted (some deadline passed less than a granule ago).
    fn ambiguous_until(&self, now: i128) -> Option<i128> {
        self.tracked.values().filter(|(_, d, armed)| now >= *d && now < *armed + GRANULE_NS).map(|(_, _, armed)| *armed + GRANULE_NS).max()
    }
    /// Would a poll now do anything observable (consume input, forget a request, end the stream)?
    fn poll_would_progress(&self, now: i128) -> Option<bool> {
        let mut m = self.clone();
        let (a, b, c) = (m.inbound.len(), m.tracked.len(), m.ended.len());
        let r = m.poll(now);
        if m.ambiguous {
            return None;
        }
        Some(r != Expect::Pending || m.inbound.len() != a || m.tracked.len() != b || m.ended.len() != c)
    }
}

struct Flag(AtomicBool);
impl ArcWake for Flag {
    fn wake_by_ref(a: &Arc<Self>) {
        a.0.store(true, Ordering::SeqCst);
    }
}

/// A divergence between the channel and the model, attributed to one listed property.
#[derive(Clone, Debug)]
pub struct Div {
    pub prop: &'static str,
    pub msg: String,
}

#[derive(Default, Clone, Debug)]
pub struct RawStats {
    pub polls: u32,
    pub yielded: u32,
    pub dups_ignored: u32,
    pub cancelled: u32,
    pub expired: u32,
    pub responded: u32,
    pub suppressed: u32,
    pub ended: bool,
    pub ended_after_wait: bool,
    pub ambiguous: bool,
    pub timer_wakes: u32,
    pub granule_skips: u32,
    pub write_failures: u32,
    pub panicked: Option<String>,
}

type Chan = BaseChannel<u64, u64, crate::sim::transport::SimTransport<Response<u64>, ClientMessage<u64>>>;

pub fn run_raw(sc: &RawScenario) -> (RawStats, Option<Div>, Vec<String>) {
    clock::enable_and_reset();
    tarpc::verif::set_yield_hook(None);
    let _sub = subscriber_guard(sc.subscriber);
    let rt = new_runtime();
    let out = rt.block_on(async { run_inner(sc).await });
    drop(rt);
    clock::disable();
    out
}

async fn run_inner(sc: &RawScenario) -> (RawStats, Option<Div>, Vec<String>) {
    let hist = Hist::new();
    let (transport, tr) = sim_transport::<Response<u64>, ClientMessage<u64>>(1, &hist, sc.independent, sc.cap);
    let mut chan: std::pin::Pin<Box<Chan>> = Box::pin(BaseChannel::with_defaults(transport));
    let flag = Arc::new(Flag(AtomicBool::new(true)));
    let w = waker(flag.clone());
    let mut m = Model {
        inbound: VecDeque::new(),
        closed: false,
        tracked: BTreeMap::new(),
        ended: BTreeMap::new(),
        ambiguous: false,
        dups_ignored: 0,
        expired: 0,
        cancelled: 0,
    };
    let mut st = RawStats::default();
    let mut log: Vec<String> = vec![];
    // body -> abortable standing in for the application's handler
    let mut handlers: BTreeMap<u64, (u64, Abortable<Pending<()>>)> = BTreeMap::new();
    let mut next_body = 100u64;
    let mut last_pending = false;
    let mut may_poll_again = true; // a stream may be polled again after it yielded
    let mut stream_done = false;
    let mut waited_closed = false;

    macro_rules! div {
        ($p:expr, $($a:tt)*) => {{
            let d = Div { prop: $p, msg: format!($($a)*) };
            log.push(format!("DIVERGENCE[{}] {}", d.prop, d.msg));
            return (st, Some(d), log);
        }};
    }

    // one poll of the stream + all comparisons; returns false when the case must stop
    macro_rules! poll_once {
        () => {{
            // a poll less than a timer granule after a deadline cannot be predicted: the environment polls later
            while let Some(t) = m.ambiguous_until(clock::now_ns() as i128) {
                let now = clock::now_ns() as i128;
                clock::advance(Duration::from_nanos((t - now) as u64)).await;
                st.granule_skips += 1;
            }
            let now = clock::now_ns() as i128;
            let before = m.clone();
            let exp = m.poll(now);
            if m.ambiguous {
                st.ambiguous = true;
                log.push(format!("t={now} poll within a timer granule of a deadline: case ends"));
                return (st, None, log);
            }
            flag.0.store(false, Ordering::SeqCst);
            let mut cx = Context::from_waker(&w);
            st.polls += 1;
            let got = crate::sim::exec::catch(|| chan.as_mut().poll_next(&mut cx));
            let got = match got {
                Ok(g) => g,
                Err(p) => {
                    st.panicked = Some(p.clone());
                    div!("C16", "poll_next panicked: {p}");
                }
            };
            let got_s = match &got {
                Poll::Ready(Some(Ok(t))) => format!("Yield(id={}, body={})", t.request.id, t.request.message),
                Poll::Ready(Some(Err(e))) => format!("Err({e})"),
                Poll::Ready(None) => "End".to_string(),
                Poll::Pending => "Pending".to_string(),
            };
            log.push(format!("t={now} poll_next -> {got_s}   (model: {exp:?}, tracked {:?})", m.tracked.keys().collect::<Vec<_>>()));
            match (got, &exp) {
                (Poll::Ready(Some(Ok(t))), Expect::Yield { id, body }) if t.request.id == *id && t.request.message == *body => {
                    let d_obs = clock::offset_of(t.request.context.deadline);
                    let d_exp = m.tracked[id].1;
                    if d_obs != d_exp {
                        div!("C07", "request {id} yielded with deadline {d_obs} ns, sent with {d_exp} ns (in-memory transport)");
                    }
                    let ab = Abortable::new(pending::<()>(), t.abort_registration);
                    handlers.insert(*body, (*id, ab));
                    drop(t.response_guard);
                    st.yielded += 1;
                    last_pending = false;
                    may_poll_again = true;
                }
                (Poll::Ready(None), Expect::End) => {
                    st.ended = true;
                    st.ended_after_wait = waited_closed;
                    stream_done = true;
                    last_pending = false;
                    may_poll_again = false;
                }
                (Poll::Pending, Expect::Pending) => {
                    last_pending = true;
                    may_poll_again = false;
                    if m.closed && m.inbound.is_empty() && !m.tracked.is_empty() {
                        waited_closed = true;
                    }
                }
                (Poll::Ready(None), e) => {
                    div!(
                        "C10",
                        "the channel's request stream ended while {} request(s) {:?} were still in flight (inbound closed: {}, unread: {}); expected {e:?}",
                        m.tracked.len(), m.tracked.keys().collect::<Vec<_>>(), m.closed, before.inbound.len()
                    );
                }
                (Poll::Pending, Expect::End) => {
                    div!("C10", "inbound side ended and nothing is in flight, but the request stream did not end (Pending)");
                }
                (Poll::Pending, Expect::Yield { id, body }) => {
                    div!("C08", "request id={id} body={body} was read but not offered to the application (Pending)");
                }
                (Poll::Ready(Some(Ok(t))), e) => {
                    let (id, body) = (t.request.id, t.request.message);
                    let why = if before.tracked.contains_key(&id) && before.tracked[&id].0 != body {
                        "its id is still in flight (duplicate must be ignored)"
                    } else {
                        "out of order or unexpected"
                    };
                    div!("C08", "request id={id} body={body} offered to the application: {why}; expected {e:?}");
                }
                (Poll::Ready(Some(Err(e))), _) => {
                    div!("C09", "stream yielded error {e} without any transport fault");
                }
            }
            // state probes after the poll
            let n = chan.in_flight_requests();
            if n != m.tracked.len() {
                div!("C11", "in_flight_requests() = {n} after the poll, model has {} tracked {:?}", m.tracked.len(), m.tracked.keys().collect::<Vec<_>>());
            }
            let timers = chan.verif_deadline_timers();
            if timers != m.tracked.len() {
                div!("C11", "{timers} deadline timers after the poll, {} requests tracked", m.tracked.len());
            }
            if tr.inbound_len() != m.inbound.len() {
                div!("C08", "{} messages left unread by the channel, model expects {}", tr.inbound_len(), m.inbound.len());
            }
            for (body, (id, ab)) in handlers.iter() {
                match (ab.is_aborted(), m.ended.get(body)) {
                    (true, Some(EndedBy::Cancel)) | (true, Some(EndedBy::Expiry)) => {}
                    (false, None) | (false, Some(EndedBy::Response)) => {}
                    (false, Some(EndedBy::Cancel)) => div!("C04", "Cancel({id}) was read for an in-flight request but its handler (body {body}) was not aborted"),
                    (false, Some(EndedBy::Expiry)) => div!("C06", "request {id} (body {body}) is past its deadline by >= 2 ms at this poll but its handler was not aborted"),
                    (true, None) => {
                        let d = m.tracked.get(id).map(|x| x.1).unwrap_or(0);
                        div!("C06", "handler of request {id} (body {body}, deadline {d} ns) aborted at t={now} ns without cancel or expiry");
                    }
                    (true, Some(EndedBy::Response)) => {}
                }
            }
        }};
    }

    for (i, op) in sc.ops.iter().enumerate() {
        if stream_done {
            break;
        }
        log.push(format!("op#{i} {op:?}"));
        match op {
            ROp::Poll { force } => {
                if *force || flag.0.load(Ordering::SeqCst) || may_poll_again {
                    poll_once!();
                }
            }
            ROp::Drain => {
                let mut k = 0;
                while (flag.0.load(Ordering::SeqCst) || may_poll_again) && !stream_done && k < 64 {
                    poll_once!();
                    k += 1;
                }
                if k == 64 {
                    div!("C14", "the channel woke itself 64 times in a row without making progress");
                }
            }
            ROp::Req { id_sel, dl } => {
                let id = IDS[*id_sel as usize % IDS.len()];
                if m.closed {
                    continue;
                }
                let now = std::time::Instant::now();
                let mut deadline = match dl {
                    Dl::InUs(us) => now + Duration::from_micros(*us),
                    Dl::PastUs(us) => now - Duration::from_micros(*us),
                    Dl::InSecs(s) => now + Duration::from_secs(*s),
                };
                let cap = clock::instant_at(SUPPORTED_SPAN_SECS * 1_000_000_000);
                if deadline > cap {
                    deadline = cap;
                }
                let body = next_body;
                next_body += 1;
                let mut ctx = tarpc::context::current();
                ctx.deadline = deadline;
                m.inbound.push_back(In::Req { id, body, deadline_ns: clock::offset_of(deadline) });
                tr.deliver(ClientMessage::Request(Request { context: ctx, id, message: body }));
            }
            ROp::Cancel { id_sel } => {
                if m.closed {
                    continue;
                }
                let id = pick_id(*id_sel, &m.tracked);
                m.inbound.push_back(In::Cancel { id });
                tr.deliver(ClientMessage::Cancel { trace_context: Default::default(), request_id: id });
            }
            ROp::Respond { id_sel, flush, fail } => {
                let id = pick_id(*id_sel, &m.tracked);
                let mut cx = Context::from_waker(&w);
                let ready = match crate::sim::exec::catch(|| chan.as_mut().poll_ready(&mut cx)) {
                    Ok(r) => r,
                    Err(p) => div!("C16", "poll_ready panicked: {p}"),
                };
                match ready {
                    Poll::Pending => {
                        log.push("  sink not ready".into());
                    }
                    Poll::Ready(Err(e)) => div!("C09", "poll_ready failed without a fault: {e}"),
                    Poll::Ready(Ok(())) => {
                        let before = tr.buffered() + tr.wire_len();
                        let tracked = m.tracked.get(&id).copied();
                        let body = tracked.map(|t| t.0).unwrap_or(0);
                        let armed = *fail && tracked.is_some();
                        if armed {
                            tr.set_fault(crate::sim::hist::IoOp::Send, 0);
                        }
                        let r = crate::sim::exec::catch(|| {
                            chan.as_mut().start_send(Response { request_id: id, message: Ok(body + 1_000_000) })
                        });
                        tr.clear_faults();
                        match r {
                            Err(p) => div!("C16", "start_send panicked: {p}"),
                            Ok(Err(e)) if armed => {
                                // the application did answer; the channel could not transmit it. The request is over
                                // either way and must not stay counted (nobody will answer or cancel it again).
                                let is_write = matches!(e, tarpc::ChannelError::Write(_));
                                let e = e.to_string();
                                log.push(format!("  start_send(Response id={id}) rejected by the transport: {e}"));
                                if !is_write {
                                    div!("C09", "a failed response write was reported as: {e}");
                                }
                                let (body, _, _) = tracked.unwrap();
                                m.tracked.remove(&id);
                                m.ended.insert(body, EndedBy::Response);
                                st.write_failures += 1;
                                may_poll_again = true;
                                let n = chan.in_flight_requests();
                                if n != m.tracked.len() {
                                    div!("C11", "in_flight_requests() = {n} after the response for request {id} was handed over and rejected by the transport; {} requests are unanswered", m.tracked.len());
                                }
                                let timers = chan.verif_deadline_timers();
                                if timers != m.tracked.len() {
                                    div!("C11", "{timers} deadline timers after a rejected response write, {} requests tracked", m.tracked.len());
                                }
                                continue;
                            }
                            Ok(Err(e)) => div!("C09", "start_send failed without a fault: {e}"),
                            Ok(Ok(())) if armed => div!("C09", "the transport rejected Response(id={id}) but start_send reported success"),
                            Ok(Ok(())) => {}
                        }
                        let wrote = tr.buffered() + tr.wire_len() - before;
                        log.push(format!("  start_send(Response id={id}) -> {wrote} item(s) handed to the transport (tracked: {})", tracked.is_some()));
                        match (tracked, wrote) {
                            (Some((body, _, _)), 1) => {
                                m.tracked.remove(&id);
                                m.ended.insert(body, EndedBy::Response);
                                st.responded += 1;
                                // the application knows it changed the channel's state: it polls again
                                may_poll_again = true;
                            }
                            (None, 0) => st.suppressed += 1,
                            (Some(_), _) => div!("C08", "response for in-flight request {id} was not handed to the transport"),
                            (None, _) => {
                                let why = m
                                    .ended
                                    .iter()
                                    .filter(|(b, _)| handlers.get(b).map_or(false, |h| h.0 == id))
                                    .map(|(_, e)| e.clone())
                                    .last();
                                let p = match why {
                                    Some(EndedBy::Cancel) => "C04",
                                    Some(EndedBy::Expiry) => "C06",
                                    _ => "C08",
                                };
                                div!(p, "Response(id={id}) was transmitted although no request with that id is in flight (last instance ended by {why:?})");
                            }
                        }
                        let n = chan.in_flight_requests();
                        if n != m.tracked.len() {
                            div!("C11", "in_flight_requests() = {n} after start_send, model has {}", m.tracked.len());
                        }
                        let timers = chan.verif_deadline_timers();
                        if timers != m.tracked.len() {
                            div!("C11", "{timers} deadline timers after start_send, {} requests tracked", m.tracked.len());
                        }
                        if *flush {
                            if let Ok(Poll::Ready(Err(e))) = crate::sim::exec::catch(|| chan.as_mut().poll_flush(&mut cx)) {
                                div!("C09", "poll_flush failed without a fault: {e}");
                            }
                        }
                    }
                }
            }
            ROp::Flush => {
                let mut cx = Context::from_waker(&w);
                if let Ok(Poll::Ready(Err(e))) = crate::sim::exec::catch(|| chan.as_mut().poll_flush(&mut cx)) {
                    div!("C09", "poll_flush failed without a fault: {e}");
                }
            }
            ROp::Advance { .. } | ROp::AdvanceTo { .. } => {
                let d = match op {
                    ROp::Advance { us } => Some(Duration::from_micros(*us)),
                    ROp::AdvanceTo { sel, delta_us } => {
                        let ds: Vec<i128> = m.tracked.values().map(|x| x.1).collect();
                        if ds.is_empty() {
                            None
                        } else {
                            let d = ds[((*sel as usize) * ds.len()) >> 16] + (*delta_us as i128) * 1000;
                            let now = clock::now_ns() as i128;
                            if d > now && d - now < 1200 * 86_400 * 1_000_000_000i128 {
                                Some(Duration::from_nanos((d - now) as u64))
                            } else {
                                None
                            }
                        }
                    }
                    _ => None,
                };
                if let Some(d) = d {
                    clock::advance(d).await;
                    // an expiry that enables progress must wake the task that saw Pending
                    if last_pending && !flag.0.load(Ordering::SeqCst) {
                        let now = clock::now_ns() as i128;
                        let mut mm = m.clone();
                        mm.expire(now);
                        if !mm.ambiguous && mm.expired > m.expired {
                            div!(
                                "C06",
                                "{} request(s) are >= 2 ms past their deadline at t={now} ns but the channel (idle, last poll Pending) was not woken: the handler is aborted only if something else polls",
                                mm.expired - m.expired
                            );
                        }
                    } else if last_pending {
                        st.timer_wakes += 1;
                    }
                }
            }
            ROp::Budget { n } => {
                tr.set_budget(match *n {
                    255 => UNLIMITED,
                    n => n as u64,
                });
            }
            ROp::PeerClose => {
                if !m.closed {
                    m.closed = true;
                    tr.close_inbound();
                }
            }
        }
        // no lost wake-up: whenever an event from outside lets the idle channel make progress, its task is woken
        let external = matches!(op, ROp::Req { .. } | ROp::Cancel { .. } | ROp::PeerClose);
        if external && last_pending && !stream_done && !flag.0.load(Ordering::SeqCst) {
            if let Some(true) = m.poll_would_progress(clock::now_ns() as i128) {
                // timers are covered above (granule); here: input and close
                if !m.inbound.is_empty() || (m.closed && m.tracked.is_empty()) {
                    div!("C10", "the idle channel has input to read or nothing left to wait for, but its task was not woken (op {op:?})");
                }
            }
        }
    }
    st.dups_ignored = m.dups_ignored;
    st.cancelled = m.cancelled;
    st.expired = m.expired;
    let _ = crate::sim::exec::catch(move || drop(chan));
    (st, None, log)
}

pub fn strategy() -> BoxedStrategy<RawScenario> {
    let dl = prop_oneof![
        6 => (1u64..200_000).prop_map(Dl::InUs),
        1 => (0u64..5_000).prop_map(Dl::PastUs),
        3 => (1u64..100_000).prop_map(Dl::InSecs),
        1 => Just(Dl::InUs(0)),
    ];
    let id = prop_oneof![8 => 0u8..4, 1 => 4u8..8];
    let id_hit = prop_oneof![5 => 8u8..16, 3 => 0u8..4, 1 => 4u8..8];
    let op = prop_oneof![
        20 => any::<bool>().prop_map(|b| ROp::Poll { force: b }),
        8 => Just(ROp::Drain),
        22 => (id, dl).prop_map(|(id_sel, dl)| ROp::Req { id_sel, dl }),
        10 => id_hit.clone().prop_map(|id_sel| ROp::Cancel { id_sel }),
        14 => (id_hit, any::<bool>(), proptest::bool::weighted(0.12)).prop_map(|(id_sel, flush, fail)| ROp::Respond { id_sel, flush, fail }),
        2 => Just(ROp::Flush),
        5 => prop_oneof![1u64..3_000, (1u64..300).prop_map(|ms| ms * 1000)].prop_map(|us| ROp::Advance { us }),
        8 => (any::<u16>(), prop_oneof![Just(-1000i32), Just(-1), Just(2000), Just(2001), 2000i32..50_000, -50_000i32..-1])
            .prop_map(|(sel, delta_us)| ROp::AdvanceTo { sel, delta_us }),
        4 => prop_oneof![Just(0u8), Just(1), Just(2), Just(255)].prop_map(|n| ROp::Budget { n }),
        3 => Just(ROp::PeerClose),
    ];
    (1usize..=3, any::<bool>(), prop_oneof![4 => Just(0u8), 1 => Just(1u8)], proptest::collection::vec(op, 1..60))
        .prop_map(|(cap, independent, subscriber, mut ops)| {
            // closing phase: the peer half-closes; the application answers or the peer cancels what is left
            ops.push(ROp::PeerClose);
            ops.push(ROp::Drain);
            RawScenario { cap, independent, subscriber, ops }
        })
        .boxed()
}

/// Check a raw-channel scenario on behalf of property `prop`: only divergences attributed to it count.
pub fn check_for(prop: &'static str, sc: &RawScenario) -> CaseResult {
    let (st, div, log) = run_raw(sc);
    if let Some(d) = div {
        if d.prop == prop || (prop == "C16" && st.panicked.is_some()) {
            let tail: Vec<&String> = log.iter().rev().take(60).rev().collect();
            return Err(Violation::new(format!("raw BaseChannel vs exact model: {}", d.msg)).with_detail(json!({"log_tail": tail})));
        }
        return Ok(CaseOk { nontrivial: false, classes: vec!["raw:divergence-owned-by-another-property"], excluded_known: 0 });
    }
    let mut classes: Vec<&'static str> = vec!["raw:base-channel"];
    if st.ambiguous {
        classes.push("raw:ended-at-timer-granule");
    }
    if st.ended {
        classes.push("raw:stream-ended");
    }
    if st.ended_after_wait {
        classes.push("raw:stream-waited-for-in-flight-after-half-close");
    }
    if st.dups_ignored > 0 {
        classes.push("raw:duplicate-ignored");
    }
    if st.expired > 0 {
        classes.push("raw:expiry");
    }
    if st.cancelled > 0 {
        classes.push("raw:cancel-hit");
    }
    if st.suppressed > 0 {
        classes.push("raw:response-for-untracked-id-suppressed");
    }
    if st.granule_skips > 0 {
        classes.push("raw:poll-postponed-past-timer-granule");
    }
    if st.write_failures > 0 {
        classes.push("raw:response-write-rejected-channel-used-further");
    }
    if st.timer_wakes > 0 {
        classes.push("raw:woken-by-timer");
    }
    let nontrivial = match prop {
        "C10" => st.ended_after_wait,
        "C11" => st.yielded >= 3 && (st.cancelled > 0) as u32 + (st.expired > 0) as u32 + (st.responded > 0) as u32 >= 2,
        "C04" => st.cancelled > 0 && st.suppressed > 0,
        "C06" => st.expired > 0 && st.responded > 0,
        "C08" => st.dups_ignored > 0 && st.responded > 0,
        _ => st.yielded > 0,
    };
    Ok(CaseOk { nontrivial, classes, excluded_known: 0 })
}
