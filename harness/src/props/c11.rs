//! C11 — Tracked request state is bounded and fully reclaimed (client part; server part in c11s).

use super::cgen::{scenario_strategy, CProfile, CScenario};
use super::cview::CView;
use crate::engines::client::{run_client, COp};
use crate::sim::hist::{Ev, IoOp, IoRes, Msg, Outcome};
use crate::sim::runner::{CaseOk, CaseResult, Violation};
use serde_json::json;
use std::collections::BTreeSet;

pub fn client_profile() -> CProfile {
    CProfile {
        w_stepcoop: 3,
        w_step: 30,
        w_drain: 8,
        w_newcall: 26,
        w_reply: 14,
        w_dup: 1,
        w_unknown: 1,
        w_dropcall: 10,
        w_clone: 1,
        w_drophandle: 0,
        w_advance: 3,
        w_advance_to: 5,
        w_budget: 5,
        w_fault: 0,
        w_peerclose: 0,
        w_closepending: 0,
        max_ops: 300,
        dl_far: 8,
        dl_short: 4,
        dl_past: 1,
        max_in_flight: 1..=4,
        buffer: 1..=3,
        cap: 1..=3,
        independent: None,
        ..CProfile::default()
    }
}

const GRAN_NS: i128 = 2_000_000;

pub fn check_client(sc: &CScenario, send_fault: Option<u8>) -> CaseResult {
    let mut ops = vec![];
    if let Some(k) = send_fault {
        // write-failure route: fail the k-th start_send (only kept if it hits a request, see below)
        ops.push(COp::Fault { op: 1, k });
    }
    ops.extend(sc.ops.iter().cloned());
    ops.push(COp::Drain);
    ops.push(COp::Budget { n: 255 });
    ops.push(COp::CloseOut); // answer everything, clock stopped from here on
    ops.push(COp::DropAllCalls);
    ops.push(COp::Drain);
    let mark = ops.len();
    ops.push(COp::DropAllHandles);
    ops.push(COp::Drain);
    let _ = mark;
    let run = run_client(&sc.cfg, &ops);
    let v = CView::new(&run);
    let fail = |msg: String| -> CaseResult {
        Err(Violation::new(msg).with_detail(json!({"history_tail": v.tail(80)})))
    };
    if let Some(p) = v.first_panic() {
        return fail(format!("panic: {p}"));
    }
    if run.livelock {
        return fail("livelock".into());
    }
    let max = sc.cfg.max_in_flight;
    // a terminal failure (cancel write failed) ends the dispatch: only the bound is checked then
    let terminal = run.recs.iter().any(|r| {
        matches!(&r.ev, Ev::Io { tr: 0, op: IoOp::Send, res: IoRes::Err, sent: Some(Msg::Cancel { .. }), .. })
    });
    // bound: at each successful Request write, the number of certainly-tracked requests before it is < max
    for s in v.sends.iter().filter(|s| matches!(s.msg, Msg::Request { .. })) {
        let now = s.t_ns as i128;
        let mut certainly = 0usize;
        for c in &run.calls {
            let Some((id, sseq, ok, _)) = v.wire.get(&c.call).copied() else { continue };
            if sseq >= s.seq || !ok {
                continue;
            }
            let responded = v.responses_for(id).iter().any(|n| n.seq > sseq && n.seq < s.seq);
            let cancelled = v.cancels_for(id).iter().any(|x| x.seq < s.seq);
            if !responded && !cancelled && now < c.deadline_ns {
                certainly += 1;
            }
        }
        if certainly >= max {
            return fail(format!(
                "seq {}: request {:?} written while {certainly} earlier requests were certainly still in flight (unanswered, uncancelled, before their deadlines): exceeds max_in_flight_requests = {max}",
                s.seq, s.msg.id()
            ));
        }
    }
    let mut classes: BTreeSet<&'static str> = BTreeSet::new();
    // H2 at every quiescence: timers == entries, lower <= entries <= upper
    for r in &run.recs {
        let Ev::Quiescent { probes } = &r.ev else { continue };
        if !probes.dispatch_alive {
            continue;
        }
        let q = r.seq;
        let now = r.t_ns as i128;
        let (Some(inf), Some(tim)) = (probes.client_in_flight, probes.client_timers) else { continue };
        if inf != tim {
            return fail(format!("at quiescence (seq {q}) the client tracks {inf} in-flight requests but {tim} deadline timers"));
        }
        let mut lower = 0usize;
        let mut upper = 0usize;
        for c in &run.calls {
            let Some((id, sseq, ok, sent_ns)) = v.wire.get(&c.call).copied() else { continue };
            if sseq >= q || !ok {
                continue;
            }
            let responded = v.responses_for(id).iter().any(|n| n.seq > sseq && n.seq < q);
            let cancelled = v.cancels_for(id).iter().any(|x| x.seq < q);
            if responded || cancelled {
                continue;
            }
            let d = c.deadline_ns.max(sent_ns as i128);
            if now < c.deadline_ns {
                lower += 1;
            }
            if now < d + GRAN_NS {
                upper += 1;
            }
        }
        if inf < lower || inf > upper {
            return fail(format!(
                "at quiescence (seq {q}) the client reports {inf} in-flight requests but the wire model says between {lower} and {upper}"
            ));
        }
        if inf > max {
            return fail(format!("client tracks {inf} in-flight requests, more than max_in_flight_requests = {max}"));
        }
    }
    // reclamation with the clock stopped
    if !terminal {
        // the quiescence just before DropAllHandles
        let hd = run.recs.iter().rposition(|r| matches!(&r.ev, Ev::Env { op } if op == "DropAllHandles")).unwrap_or(0);
        let q = run.recs[..hd].iter().rev().find_map(|r| if let Ev::Quiescent { probes } = &r.ev { Some((r.seq, probes.clone())) } else { None });
        if let Some((qs, p)) = q {
            if p.dispatch_alive {
                let pend: Vec<usize> = run
                    .calls
                    .iter()
                    .filter(|c| run.states[c.call].resolved.is_none() && run.states[c.call].dropped.is_none())
                    .map(|c| c.call)
                    .collect();
                if pend.is_empty() && (p.client_in_flight != Some(0) || p.client_timers != Some(0)) {
                    return fail(format!(
                        "all calls have resolved or been dropped and the system is quiescent (seq {qs}) but the client still tracks {:?} requests and {:?} deadline timers (clock not advanced)",
                        p.client_in_flight, p.client_timers
                    ));
                }
            }
        }
        match &run.dispatch_end {
            Some(Ok(())) => {}
            other => {
                return fail(format!(
                    "after every call ended and the handles were dropped (clock stopped) the dispatch did not complete immediately: {other:?}"
                ))
            }
        }
    }
    // routes used
    let mut routes = BTreeSet::new();
    for c in &run.calls {
        match &run.states[c.call].resolved {
            Some((_, _, Outcome::Ok(_))) | Some((_, _, Outcome::Server(..))) => {
                routes.insert("reply");
            }
            Some((_, _, Outcome::Deadline)) => {
                routes.insert("expiry");
            }
            Some((_, _, Outcome::Send)) => {
                routes.insert("write-failure");
            }
            Some((_, _, Outcome::Channel(_))) | Some((_, _, Outcome::Shutdown)) => {
                routes.insert("terminal");
            }
            None => {}
        }
        if run.states[c.call].dropped.is_some() && run.states[c.call].resolved.is_none() {
            if let Some((id, _, _, _)) = v.wire.get(&c.call) {
                if !v.cancels_for(*id).is_empty() {
                    routes.insert("abandonment");
                }
            }
        }
    }
    for r in &routes {
        classes.insert(match *r {
            "reply" => "client:route-reply",
            "expiry" => "client:route-expiry",
            "write-failure" => "client:route-write-failure",
            "terminal" => "client:route-terminal",
            _ => "client:route-abandonment",
        });
    }
    let transmitted = v.wire.len();
    let nontrivial = routes.len() >= 3 && transmitted >= 2 * max;
    Ok(CaseOk { nontrivial, classes: classes.into_iter().collect(), excluded_known: run.excluded_known })
}

pub fn strategy_client() -> proptest::strategy::BoxedStrategy<CScenario> {
    scenario_strategy(&client_profile())
}
