//! Generators for server-engine scenarios.

use crate::engines::client::Dl;
use crate::engines::server::{IdKind, SOp, ServerCfg};
use proptest::prelude::*;
use serde::{Deserialize, Serialize};

#[derive(Clone, Debug, Serialize, Deserialize, PartialEq, Eq)]
pub struct SScenario {
    pub cfg: ServerCfg,
    pub ops: Vec<SOp>,
}

#[derive(Clone, Debug)]
pub struct SProfile {
    pub w_step: u32,
    /// steps polled with a nearly exhausted cooperative-scheduling budget (SOp::StepCoop)
    pub w_stepcoop: u32,
    pub w_drain: u32,
    pub w_request: u32,
    pub w_cancel: u32,
    pub w_complete: u32,
    pub w_drophandler: u32,
    pub w_startheld: u32,
    pub w_dropheld: u32,
    pub w_advance: u32,
    pub w_advance_to: u32,
    pub w_budget: u32,
    pub w_fault: u32,
    pub w_peerclose: u32,
    pub w_dropchannel: u32,
    /// burst: Cancel immediately followed by a fresh request (no poll in between)
    pub w_cancel_then_request: u32,
    pub max_ops: usize,
    pub id_fresh: u32,
    pub id_wide: u32,
    pub id_dup: u32,
    pub id_reuse: u32,
    pub dl_far: u32,
    pub dl_short: u32,
    pub dl_past: u32,
    pub dl_huge: u32,
    pub hold: f64,
    pub unknown_cancel: f64,
    pub limits: Vec<Option<usize>>,
    pub resp_buffer: std::ops::RangeInclusive<usize>,
    pub cap: std::ops::RangeInclusive<usize>,
    pub independent: Option<bool>,
    pub adaptor: Option<bool>,
    pub subscribers: Vec<u8>,
}

impl Default for SProfile {
    fn default() -> Self {
        SProfile {
            w_step: 30,
            w_stepcoop: 0,
            w_drain: 8,
            w_request: 22,
            w_cancel: 8,
            w_complete: 14,
            w_drophandler: 2,
            w_startheld: 2,
            w_dropheld: 1,
            w_advance: 3,
            w_advance_to: 2,
            w_budget: 5,
            w_fault: 0,
            w_peerclose: 0,
            w_dropchannel: 0,
            w_cancel_then_request: 0,
            max_ops: 70,
            id_fresh: 6,
            id_wide: 2,
            id_dup: 1,
            id_reuse: 1,
            dl_far: 8,
            dl_short: 2,
            dl_past: 1,
            dl_huge: 0,
            hold: 0.1,
            unknown_cancel: 0.2,
            limits: vec![None],
            resp_buffer: 1..=4,
            cap: 1..=3,
            independent: Some(false),
            adaptor: None,
            subscribers: vec![0],
        }
    }
}

fn dl_strategy(p: &SProfile) -> BoxedStrategy<Dl> {
    let mut v: Vec<(u32, BoxedStrategy<Dl>)> = vec![];
    if p.dl_far > 0 {
        v.push((p.dl_far, (3600u64..200_000).prop_map(Dl::InSecs).boxed()));
    }
    if p.dl_short > 0 {
        v.push((
            p.dl_short,
            prop_oneof![(0u64..60_000).prop_map(Dl::InUs), (0u64..60).prop_map(|ms| Dl::InUs(ms * 1000)), Just(Dl::InUs(0))].boxed(),
        ));
    }
    if p.dl_huge > 0 {
        v.push((
            p.dl_huge,
            prop_oneof![(86_400u64..40 * 86_400).prop_map(Dl::InSecs), (300 * 86_400u64..66_000_000).prop_map(Dl::InSecs)].boxed(),
        ));
    }
    if p.dl_past > 0 {
        v.push((p.dl_past, (0u64..5_000_000).prop_map(Dl::PastUs).boxed()));
    }
    proptest::strategy::Union::new_weighted(v).boxed()
}

fn idk_strategy(p: &SProfile) -> BoxedStrategy<IdKind> {
    let mut v: Vec<(u32, BoxedStrategy<IdKind>)> = vec![];
    if p.id_fresh > 0 {
        v.push((p.id_fresh, Just(IdKind::Fresh).boxed()));
    }
    if p.id_wide > 0 {
        v.push((p.id_wide, any::<u64>().prop_map(IdKind::FreshWide).boxed()));
    }
    if p.id_dup > 0 {
        v.push((p.id_dup, any::<u16>().prop_map(IdKind::DupInFlight).boxed()));
    }
    if p.id_reuse > 0 {
        v.push((p.id_reuse, any::<u16>().prop_map(IdKind::ReuseCompleted).boxed()));
    }
    proptest::strategy::Union::new_weighted(v).boxed()
}

fn request_strategy(p: &SProfile) -> BoxedStrategy<SOp> {
    (idk_strategy(p), dl_strategy(p), 0u16..4, any::<bool>(), proptest::bool::weighted(p.hold))
        .prop_map(|(idk, dl, trace, sampled, hold)| SOp::SendRequest { idk, dl, trace, sampled, hold })
        .boxed()
}

/// Strategy of op *groups* (most groups are a single op).
pub fn op_strategy(p: &SProfile) -> BoxedStrategy<Vec<SOp>> {
    let mut v: Vec<(u32, BoxedStrategy<Vec<SOp>>)> = vec![];
    let mut add = |w: u32, s: BoxedStrategy<SOp>| {
        if w > 0 {
            v.push((w, s.prop_map(|o| vec![o]).boxed()));
        }
    };
    add(p.w_step, any::<u16>().prop_map(|sel| SOp::Step { sel }).boxed());
    add(p.w_stepcoop, (any::<u16>(), 0u8..6).prop_map(|(sel, budget)| SOp::StepCoop { sel, budget }).boxed());
    add(p.w_drain, Just(SOp::Drain).boxed());
    add(p.w_request, request_strategy(p));
    let uc = p.unknown_cancel;
    add(
        p.w_cancel,
        (any::<u16>(), proptest::option::weighted(uc, any::<u8>()))
            .prop_map(|(sel, unknown)| SOp::SendCancel { sel, unknown })
            .boxed(),
    );
    add(
        p.w_complete,
        (any::<u16>(), proptest::bool::weighted(0.2)).prop_map(|(sel, err)| SOp::CompleteHandler { sel, err }).boxed(),
    );
    add(p.w_drophandler, any::<u16>().prop_map(|sel| SOp::DropHandler { sel }).boxed());
    add(p.w_startheld, any::<u16>().prop_map(|sel| SOp::StartHeld { sel }).boxed());
    add(p.w_dropheld, any::<u16>().prop_map(|sel| SOp::DropHeld { sel }).boxed());
    add(
        p.w_advance,
        prop_oneof![
            (0u64..5_000).prop_map(|us| SOp::Advance { us }),
            (0u64..100).prop_map(|ms| SOp::Advance { us: ms * 1000 }),
            (0u64..20_000).prop_map(|ms| SOp::Advance { us: ms * 1000 }),
        ]
        .boxed(),
    );
    add(
        p.w_advance_to,
        (any::<u16>(), prop_oneof![Just(-1000i32), Just(0), Just(1000), Just(2000), -3000i32..3000])
            .prop_map(|(sel, delta_us)| SOp::AdvanceTo { sel, delta_us })
            .boxed(),
    );
    add(
        p.w_budget,
        prop_oneof![3 => Just(0u8), 3 => 1u8..4, 3 => Just(255u8)].prop_map(|n| SOp::Budget { n }).boxed(),
    );
    add(p.w_fault, (0u8..5, 0u8..12).prop_map(|(op, k)| SOp::Fault { op, k }).boxed());
    add(p.w_peerclose, Just(SOp::PeerClose).boxed());
    add(p.w_dropchannel, Just(SOp::DropChannel).boxed());
    if p.w_cancel_then_request > 0 {
        let req = request_strategy(&SProfile { id_dup: 0, id_reuse: 0, ..p.clone() });
        v.push((
            p.w_cancel_then_request,
            (any::<u16>(), req)
                .prop_map(|(sel, r)| vec![SOp::SendCancel { sel, unknown: None }, r])
                .boxed(),
        ));
    }
    proptest::strategy::Union::new_weighted(v).boxed()
}

pub fn cfg_strategy(p: &SProfile) -> BoxedStrategy<ServerCfg> {
    let ind = match p.independent {
        Some(b) => Just(b).boxed(),
        None => any::<bool>().boxed(),
    };
    let ad = match p.adaptor {
        Some(b) => Just(b).boxed(),
        None => proptest::bool::weighted(0.3).boxed(),
    };
    (
        proptest::sample::select(p.limits.clone()),
        p.resp_buffer.clone(),
        ind,
        p.cap.clone(),
        ad,
        proptest::sample::select(p.subscribers.clone()),
    )
        .prop_map(|(limit, resp_buffer, independent, cap, adaptor, subscriber)| ServerCfg {
            limit,
            resp_buffer,
            independent,
            cap,
            adaptor,
            subscriber,
        })
        .boxed()
}

pub fn scenario_strategy(p: &SProfile) -> BoxedStrategy<SScenario> {
    (cfg_strategy(p), proptest::collection::vec(op_strategy(p), 0..p.max_ops))
        .prop_map(|(cfg, groups)| SScenario { cfg, ops: groups.into_iter().flatten().collect() })
        .boxed()
}
