//! C15 — Shipped transports deliver messages intact and in order.
//! Engine D: generated message sequences through the in-memory channels and the serde framed
//! transport (JSON, bincode) over a byte pipe with generated fragmentation.

use crate::sim::clock;
use crate::sim::hist::Tc;
use crate::sim::pipe::pipe;
use crate::sim::runner::{CaseOk, CaseResult, Prop, Tier, Violation, Work};
use futures::task::noop_waker;
use futures::{Sink, Stream};
use proptest::prelude::*;
use serde::{Deserialize, Serialize};
use serde_json::json;
use std::io::ErrorKind;
use std::pin::Pin;
use std::task::{Context, Poll};
use std::time::{Duration, Instant};
use tarpc::{ClientMessage, Request, Response, ServerError};

#[derive(Clone, Debug, Serialize, Deserialize, PartialEq, Eq)]
pub enum Body {
    Unit,
    I(i64),
    U(u64),
    S(String),
    Bytes(Vec<u8>),
    Opt(Option<u32>),
    Pair(Box<Body>, Box<Body>),
    List(Vec<Body>),
}

pub const ALL_KINDS: &[ErrorKind] = &[
    ErrorKind::NotFound,
    ErrorKind::PermissionDenied,
    ErrorKind::ConnectionRefused,
    ErrorKind::ConnectionReset,
    ErrorKind::ConnectionAborted,
    ErrorKind::NotConnected,
    ErrorKind::AddrInUse,
    ErrorKind::AddrNotAvailable,
    ErrorKind::BrokenPipe,
    ErrorKind::AlreadyExists,
    ErrorKind::WouldBlock,
    ErrorKind::InvalidInput,
    ErrorKind::InvalidData,
    ErrorKind::TimedOut,
    ErrorKind::WriteZero,
    ErrorKind::Interrupted,
    ErrorKind::Other,
    ErrorKind::UnexpectedEof,
    // non-portable kinds: must degrade to Other
    ErrorKind::HostUnreachable,
    ErrorKind::NetworkUnreachable,
    ErrorKind::NetworkDown,
    ErrorKind::NotADirectory,
    ErrorKind::IsADirectory,
    ErrorKind::DirectoryNotEmpty,
    ErrorKind::ReadOnlyFilesystem,
    ErrorKind::StaleNetworkFileHandle,
    ErrorKind::StorageFull,
    ErrorKind::NotSeekable,
    ErrorKind::QuotaExceeded,
    ErrorKind::FileTooLarge,
    ErrorKind::ResourceBusy,
    ErrorKind::ExecutableFileBusy,
    ErrorKind::Deadlock,
    ErrorKind::CrossesDevices,
    ErrorKind::TooManyLinks,
    ErrorKind::InvalidFilename,
    ErrorKind::ArgumentListTooLong,
    ErrorKind::Unsupported,
    ErrorKind::OutOfMemory,
];
pub const PORTABLE: usize = 18;

#[derive(Clone, Debug, Serialize, Deserialize, PartialEq, Eq)]
pub enum MsgSpec {
    Request { id: u64, body: Body, deadline_off_us: i64, trace: TcSpec },
    Cancel { id: u64, trace: TcSpec },
    Response { id: u64, result: Result<Body, (u8, String)> },
}

#[derive(Clone, Copy, Debug, Serialize, Deserialize, PartialEq, Eq)]
pub struct TcSpec {
    pub hi: u64,
    pub lo: u64,
    pub span: u64,
    pub sampled: bool,
}
impl TcSpec {
    fn tc(&self) -> Tc {
        Tc { trace_id: ((self.hi as u128) << 64) | self.lo as u128, span_id: self.span, sampled: self.sampled }
    }
}

#[derive(Clone, Copy, Debug, Serialize, Deserialize, PartialEq, Eq)]
pub enum MediumSpec {
    Unbounded,
    Bounded(u8),
    Json,
    Bincode,
}

#[derive(Clone, Debug, Serialize, Deserialize, PartialEq, Eq)]
pub struct Sc15 {
    pub medium: MediumSpec,
    /// true: client -> server direction (ClientMessage), false: server -> client (Response)
    pub client_to_server: bool,
    pub msgs: Vec<MsgSpec>,
    pub write_script: Vec<u8>,
    pub read_script: Vec<u8>,
    pub close_before_drop: bool,
    /// flush after every k-th message (0 = only at the end)
    pub flush_every: u8,
    /// lazy reader: the reading end is polled only in rounds in which the writer made no progress
    /// (blocked or gone), so that as much as possible is still queued when the writer is dropped
    #[serde(default)]
    pub lazy_reader: bool,
}

fn mk_client_msg(m: &MsgSpec, now: Instant) -> Option<ClientMessage<Body>> {
    match m {
        MsgSpec::Request { id, body, deadline_off_us, trace } => {
            let deadline = if *deadline_off_us >= 0 {
                now + Duration::from_micros(*deadline_off_us as u64)
            } else {
                now - Duration::from_micros((-*deadline_off_us) as u64)
            };
            let mut ctx = tarpc::context::current();
            ctx.deadline = deadline;
            ctx.trace_context = trace.tc().to_tarpc();
            Some(ClientMessage::Request(Request { context: ctx, id: *id, message: body.clone() }))
        }
        MsgSpec::Cancel { id, trace } => Some(ClientMessage::Cancel { trace_context: trace.tc().to_tarpc(), request_id: *id }),
        _ => None,
    }
}

fn mk_response(m: &MsgSpec) -> Option<Response<Body>> {
    match m {
        MsgSpec::Response { id, result } => Some(Response {
            request_id: *id,
            message: match result {
                Ok(b) => Ok(b.clone()),
                Err((k, d)) => Err(ServerError::new(ALL_KINDS[*k as usize % ALL_KINDS.len()], d.clone())),
            },
        }),
        _ => None,
    }
}

/// What the reader must see for a written spec (serde media): deadline = max(D, now) under the frozen clock,
/// non-portable kinds degrade to Other.
fn expected(m: &MsgSpec, serde_medium: bool) -> MsgSpec {
    match m {
        MsgSpec::Request { id, body, deadline_off_us, trace } => MsgSpec::Request {
            id: *id,
            body: body.clone(),
            deadline_off_us: if serde_medium { (*deadline_off_us).max(0) } else { *deadline_off_us },
            trace: *trace,
        },
        MsgSpec::Response { id, result } => MsgSpec::Response {
            id: *id,
            result: match result {
                Ok(b) => Ok(b.clone()),
                Err((k, d)) => {
                    let k = *k as usize % ALL_KINDS.len();
                    let k2 = if serde_medium && k >= PORTABLE { 16 } else { k };
                    Err((k2 as u8, d.clone()))
                }
            },
        },
        other => other.clone(),
    }
}

fn tcspec(t: tarpc::trace::Context) -> TcSpec {
    let tc: Tc = t.into();
    TcSpec { hi: (tc.trace_id >> 64) as u64, lo: tc.trace_id as u64, span: tc.span_id, sampled: tc.sampled }
}

fn back_client(m: ClientMessage<Body>, now: Instant) -> MsgSpec {
    match m {
        ClientMessage::Request(r) => {
            let off = if r.context.deadline >= now {
                (r.context.deadline - now).as_micros() as i64
            } else {
                -((now - r.context.deadline).as_micros() as i64)
            };
            MsgSpec::Request { id: r.id, body: r.message, deadline_off_us: off, trace: tcspec(r.context.trace_context) }
        }
        ClientMessage::Cancel { trace_context, request_id } => MsgSpec::Cancel { id: request_id, trace: tcspec(trace_context) },
        _ => unreachable!(),
    }
}

fn back_response(r: Response<Body>) -> MsgSpec {
    MsgSpec::Response {
        id: r.request_id,
        result: match r.message {
            Ok(b) => Ok(b),
            Err(e) => {
                let k = ALL_KINDS.iter().position(|x| *x == e.kind).unwrap_or(255);
                Err((k as u8, e.detail))
            }
        },
    }
}

pub struct Stats {
    pub partial_reads: u32,
    pub partial_writes: u32,
}

/// Drive writer and reader to completion. Returns the items read, in order, and whether end-of-stream followed.
fn drive<S, I, W, R, WE, RE>(
    mut writer: Option<Pin<Box<W>>>,
    mut reader: Pin<Box<R>>,
    items: Vec<S>,
    flush_every: u8,
    close_before_drop: bool,
    lazy_reader: bool,
    byte_progress: &dyn Fn() -> u64,
) -> Result<(Vec<I>, bool), String>
where
    W: Sink<S, Error = WE>,
    R: Stream<Item = Result<I, RE>>,
    WE: std::fmt::Display,
    RE: std::fmt::Display,
{
    let w = noop_waker();
    let mut cx = Context::from_waker(&w);
    let n = items.len();
    let mut pending: std::collections::VecDeque<S> = items.into();
    let mut sent = 0usize;
    let mut out: Vec<I> = vec![];
    let mut need_flush = false;
    let mut closing = false;
    let mut eos = false;
    let mut idle_rounds = 0u32;
    let mut early_eos = false;
    let mut last_bytes = byte_progress();
    loop {
        let mut progress = false;
        let b = byte_progress();
        if b != last_bytes {
            last_bytes = b;
            progress = true;
        }
        // writer
        if let Some(wr) = writer.as_mut() {
            if need_flush {
                match wr.as_mut().poll_flush(&mut cx) {
                    Poll::Ready(Ok(())) => {
                        need_flush = false;
                        progress = true;
                    }
                    Poll::Ready(Err(e)) => return Err(format!("flush failed: {e}")),
                    Poll::Pending => {}
                }
            } else if !pending.is_empty() {
                match wr.as_mut().poll_ready(&mut cx) {
                    Poll::Ready(Ok(())) => {
                        let it = pending.pop_front().unwrap();
                        if let Err(e) = wr.as_mut().start_send(it) {
                            return Err(format!("start_send failed after poll_ready succeeded: {e}"));
                        }
                        sent += 1;
                        progress = true;
                        if flush_every > 0 && sent % flush_every as usize == 0 {
                            need_flush = true;
                        }
                        if pending.is_empty() {
                            need_flush = true;
                        }
                    }
                    Poll::Ready(Err(e)) => return Err(format!("poll_ready failed: {e}")),
                    Poll::Pending => {}
                }
            } else if close_before_drop && !closing {
                closing = true;
                progress = true;
            } else if closing {
                match wr.as_mut().poll_close(&mut cx) {
                    Poll::Ready(Ok(())) => {
                        writer = None; // closed, then dropped
                        progress = true;
                    }
                    Poll::Ready(Err(e)) => return Err(format!("poll_close failed: {e}")),
                    Poll::Pending => {}
                }
            } else {
                writer = None; // everything written and flushed: drop the writing end
                progress = true;
            }
        }
        // reader
        let writer_progressed = progress;
        if !eos && !(lazy_reader && writer_progressed && writer.is_some()) {
            match reader.as_mut().poll_next(&mut cx) {
                Poll::Ready(Some(Ok(i))) => {
                    out.push(i);
                    progress = true;
                }
                Poll::Ready(Some(Err(e))) => return Err(format!("reader yielded an error after {} of {n} messages: {e}", out.len())),
                Poll::Ready(None) => {
                    eos = true;
                    progress = true;
                    if writer.is_some() && !closing {
                        early_eos = true;
                    }
                }
                Poll::Pending => {}
            }
        }
        if eos && writer.is_none() {
            break;
        }
        if eos && early_eos {
            return Err(format!("end-of-stream after {} messages while the writer was still open ({} written)", out.len(), sent));
        }
        if progress {
            idle_rounds = 0;
        } else {
            idle_rounds += 1;
            if idle_rounds > 200_000 {
                return Err(format!("no progress: {} of {n} written, {} read, writer {} (messages lost or end-of-stream never signalled)", sent, out.len(), if writer.is_some() { "open" } else { "dropped" }));
            }
        }
    }
    Ok((out, eos))
}

pub fn check(sc: &Sc15) -> CaseResult {
    clock::enable_and_reset();
    let now = Instant::now();
    let serde_medium = matches!(sc.medium, MediumSpec::Json | MediumSpec::Bincode);
    let msgs: Vec<MsgSpec> = sc
        .msgs
        .iter()
        .filter(|m| matches!(m, MsgSpec::Response { .. }) != sc.client_to_server)
        .cloned()
        .collect();
    let want: Vec<MsgSpec> = msgs.iter().map(|m| expected(m, serde_medium)).collect();
    let mut partial = (0u32, 0u32);
    let probe: std::cell::RefCell<Box<dyn Fn() -> u64>> = std::cell::RefCell::new(Box::new(|| 0));
    let got: Result<(Vec<MsgSpec>, bool), String> = crate::sim::exec::catch(|| {
        macro_rules! go {
            ($w:expr, $r:expr) => {{
                if sc.client_to_server {
                    let items: Vec<ClientMessage<Body>> = msgs.iter().filter_map(|m| mk_client_msg(m, now)).collect();
                    drive(Some(Box::pin($w)), Box::pin($r), items, sc.flush_every, sc.close_before_drop, sc.lazy_reader, &*probe.borrow())
                        .map(|(v, e)| (v.into_iter().map(|m| back_client(m, now)).collect::<Vec<_>>(), e))
                } else {
                    unreachable!()
                }
            }};
        }
        macro_rules! go_resp {
            ($w:expr, $r:expr) => {{
                let items: Vec<Response<Body>> = msgs.iter().filter_map(mk_response).collect();
                drive(Some(Box::pin($w)), Box::pin($r), items, sc.flush_every, sc.close_before_drop, sc.lazy_reader, &*probe.borrow())
                    .map(|(v, e)| (v.into_iter().map(back_response).collect::<Vec<_>>(), e))
            }};
        }
        match (sc.medium, sc.client_to_server) {
            (MediumSpec::Unbounded, true) => {
                let (c, s) = tarpc::transport::channel::unbounded::<Response<Body>, ClientMessage<Body>>();
                go!(c, s)
            }
            (MediumSpec::Unbounded, false) => {
                let (c, s) = tarpc::transport::channel::unbounded::<Response<Body>, ClientMessage<Body>>();
                go_resp!(s, c)
            }
            (MediumSpec::Bounded(k), true) => {
                let (c, s) = tarpc::transport::channel::bounded::<Response<Body>, ClientMessage<Body>>(k as usize % 5);
                go!(c, s)
            }
            (MediumSpec::Bounded(k), false) => {
                let (c, s) = tarpc::transport::channel::bounded::<Response<Body>, ClientMessage<Body>>(k as usize % 5);
                go_resp!(s, c)
            }
            (MediumSpec::Json, dir) | (MediumSpec::Bincode, dir) => {
                let (a, b) = pipe();
                for h in [&a.tx, &b.tx] {
                    let mut h = h.borrow_mut();
                    h.auto_deliver = true;
                    h.write_script = sc.write_script.clone();
                    h.read_script = sc.read_script.clone();
                }
                let (ha, hb) = (a.tx.clone(), b.tx.clone());
                {
                    let (pa, pb) = (ha.clone(), hb.clone());
                    *probe.borrow_mut() = Box::new(move || {
                        let (x, y) = (pa.borrow(), pb.borrow());
                        x.total_written + y.total_written + (x.readable.len() + y.readable.len()) as u64 * 1_000_003
                    });
                }
                let r = if sc.medium == MediumSpec::Json {
                    let c = tarpc::serde_transport::Transport::<_, Response<Body>, ClientMessage<Body>, _>::from((
                        a,
                        tokio_serde::formats::Json::<Response<Body>, ClientMessage<Body>>::default(),
                    ));
                    let s = tarpc::serde_transport::Transport::<_, ClientMessage<Body>, Response<Body>, _>::from((
                        b,
                        tokio_serde::formats::Json::<ClientMessage<Body>, Response<Body>>::default(),
                    ));
                    if dir {
                        go!(c, s)
                    } else {
                        go_resp!(s, c)
                    }
                } else {
                    let c = tarpc::serde_transport::Transport::<_, Response<Body>, ClientMessage<Body>, _>::from((
                        a,
                        tokio_serde::formats::Bincode::<Response<Body>, ClientMessage<Body>>::default(),
                    ));
                    let s = tarpc::serde_transport::Transport::<_, ClientMessage<Body>, Response<Body>, _>::from((
                        b,
                        tokio_serde::formats::Bincode::<ClientMessage<Body>, Response<Body>>::default(),
                    ));
                    if dir {
                        go!(c, s)
                    } else {
                        go_resp!(s, c)
                    }
                };
                let (x, y) = (ha.borrow(), hb.borrow());
                partial = (x.partial_reads + y.partial_reads, x.partial_writes + y.partial_writes);
                r
            }
        }
    })
    .unwrap_or_else(|p| Err(format!("panic: {p}")));
    clock::disable();
    let fail = |m: String| -> CaseResult { Err(Violation::new(m).with_detail(json!({"scenario": sc}))) };
    let (got, eos) = match got {
        Ok(x) => x,
        Err(m) => return fail(format!("{:?} transport ({}): {m}", sc.medium, if sc.client_to_server { "client->server" } else { "server->client" })),
    };
    if !eos {
        return fail("no end-of-stream after the writing end was dropped".into());
    }
    if got.len() != want.len() {
        return fail(format!("{:?}: {} messages written, {} read", sc.medium, want.len(), got.len()));
    }
    for (i, (g, w)) in got.iter().zip(want.iter()).enumerate() {
        if g != w {
            let extra = match (g, w) {
                (MsgSpec::Response { result: Err((gk, _)), .. }, MsgSpec::Response { result: Err((wk, _)), .. }) if gk != wk => format!(
                    " (error kind {:?} arrived as {:?})",
                    ALL_KINDS[*wk as usize % ALL_KINDS.len()],
                    ALL_KINDS.get(*gk as usize)
                ),
                _ => String::new(),
            };
            return fail(format!("{:?}: message #{i} was written as {w:?} but read as {g:?}{extra}", sc.medium));
        }
    }
    let variants: std::collections::BTreeSet<u8> = want
        .iter()
        .map(|m| match m {
            MsgSpec::Request { .. } => 0,
            MsgSpec::Cancel { .. } => 1,
            MsgSpec::Response { result: Ok(_), .. } => 2,
            MsgSpec::Response { result: Err(_), .. } => 3,
        })
        .collect();
    let mut classes = vec![match sc.medium {
        MediumSpec::Unbounded => "unbounded",
        MediumSpec::Bounded(_) => "bounded",
        MediumSpec::Json => "json",
        MediumSpec::Bincode => "bincode",
    }];
    if partial.0 > 0 {
        classes.push("frame-split-across-reads");
    }
    if partial.1 > 0 {
        classes.push("partial-write");
    }
    let errkinds = want.iter().filter(|m| matches!(m, MsgSpec::Response { result: Err(_), .. })).count();
    if errkinds > 0 {
        classes.push("error-kind");
    }
    let nontrivial = (want.len() >= 3 && variants.len() >= 2 && partial.0 > 0 && partial.1 > 0) || (serde_medium && errkinds > 0);
    Ok(CaseOk { nontrivial, classes, excluded_known: 0 })
}

/// Differential sub-oracle: peers that omit optional fields are still understood.
pub fn minimal_json_defaults() -> Result<(), String> {
    let cancel: ClientMessage<Body> =
        serde_json::from_str(r#"{"Cancel":{"request_id":7}}"#).map_err(|e| format!("a Cancel without trace_context does not decode: {e}"))?;
    match cancel {
        ClientMessage::Cancel { trace_context, request_id } => {
            if request_id != 7 || trace_context != tarpc::trace::Context::default() {
                return Err(format!("a Cancel without trace_context decoded to id {request_id}, context {trace_context:?}"));
            }
        }
        _ => return Err("a Cancel decoded as another variant".into()),
    }
    Ok(())
}

/// One generated case of "peers that omit optional fields are still understood" (self-describing encoding).
pub fn omitted_fields_case(id: u64, body: &Body) -> Result<(), String> {
    // Cancel without its trace context
    let txt = format!(r#"{{"Cancel":{{"request_id":{id}}}}}"#);
    match serde_json::from_str::<ClientMessage<Body>>(&txt) {
        Ok(ClientMessage::Cancel { trace_context, request_id }) => {
            if request_id != id || trace_context != tarpc::trace::Context::default() {
                return Err(format!("{txt} decoded to Cancel{{request_id: {request_id}, trace_context: {trace_context:?}}}"));
            }
        }
        Ok(_) => return Err(format!("{txt} decoded as another variant")),
        Err(e) => return Err(format!("a Cancel without trace_context does not decode ({txt}): {e}")),
    }
    // Request whose context omits the deadline: decodes, keeps id / body / trace context, deadline = now + 10 s
    let b = serde_json::to_string(body).map_err(|e| e.to_string())?;
    let full = tarpc::trace::Context { trace_id: tarpc::trace::TraceId::from(7u128), span_id: tarpc::trace::SpanId::from(9u64), sampling_decision: tarpc::trace::SamplingDecision::Sampled };
    let tc = serde_json::to_string(&full).map_err(|e| e.to_string())?;
    let txt = format!(r#"{{"Request":{{"context":{{"trace_context":{tc}}},"id":{id},"message":{b}}}}}"#);
    clock::enable_and_reset();
    let before = Instant::now();
    let r = serde_json::from_str::<ClientMessage<Body>>(&txt);
    let after = Instant::now();
    clock::disable();
    match r {
        Ok(ClientMessage::Request(req)) => {
            if req.id != id || &req.message != body || req.context.trace_context != full {
                return Err(format!("a Request without a deadline decoded to different id/body/trace context: {req:?}"));
            }
            let lo = before + Duration::from_secs(10);
            let hi = after + Duration::from_secs(10);
            if req.context.deadline < lo || req.context.deadline > hi {
                return Err(format!("a Request without a deadline decoded with a deadline {:?} from now instead of the documented 10 s", req.context.deadline.saturating_duration_since(before)));
            }
        }
        Ok(_) => return Err("a Request without a deadline decoded as another variant".into()),
        Err(e) => return Err(format!("a Request whose context omits the deadline does not decode: {e}")),
    }
    Ok(())
}

pub fn body_strategy() -> BoxedStrategy<Body> {
    let leaf = prop_oneof![
        Just(Body::Unit),
        prop_oneof![Just(0i64), Just(i64::MIN), Just(i64::MAX), any::<i64>()].prop_map(Body::I),
        prop_oneof![Just(0u64), Just(u64::MAX), Just(1u64 << 53), any::<u64>()].prop_map(Body::U),
        prop_oneof![Just(String::new()), "[a-zA-Z0-9 ]{0,12}", "\\PC{0,8}", Just("é漢字\u{1F600}\u{0}\"\\".to_string())].prop_map(Body::S),
        proptest::collection::vec(any::<u8>(), 0..24).prop_map(Body::Bytes),
        proptest::option::of(any::<u32>()).prop_map(Body::Opt),
    ];
    leaf.prop_recursive(3, 12, 4, |inner| {
        prop_oneof![
            (inner.clone(), inner.clone()).prop_map(|(a, b)| Body::Pair(Box::new(a), Box::new(b))),
            proptest::collection::vec(inner, 0..4).prop_map(Body::List),
        ]
    })
    .boxed()
}

pub fn big_body() -> BoxedStrategy<Body> {
    prop_oneof![
        (60_000usize..70_000).prop_map(|n| Body::S("x".repeat(n))),
        (60_000usize..70_000).prop_map(|n| Body::Bytes(vec![0xAB; n])),
    ]
    .boxed()
}

pub fn id_strategy() -> BoxedStrategy<u64> {
    prop_oneof![Just(0u64), Just(1u64), Just((1u64 << 32) - 1), Just(1u64 << 32), Just((1u64 << 32) + 1), Just(u64::MAX), any::<u64>()].boxed()
}

pub fn tc_strategy() -> BoxedStrategy<TcSpec> {
    let b = prop_oneof![Just(0u64), Just(1u64), Just(u64::MAX), any::<u64>()];
    (b.clone(), b.clone(), b, any::<bool>()).prop_map(|(hi, lo, span, sampled)| TcSpec { hi, lo, span, sampled }).boxed()
}

pub fn msg_strategy() -> BoxedStrategy<MsgSpec> {
    let body = prop_oneof![30 => body_strategy(), 1 => big_body()];
    let dl = prop_oneof![Just(0i64), 0i64..5_000_000, -5_000_000i64..0, (0i64..100_000).prop_map(|s| s * 1_000_000)];
    prop_oneof![
        4 => (id_strategy(), body.clone(), dl, tc_strategy()).prop_map(|(id, body, deadline_off_us, trace)| MsgSpec::Request { id, body, deadline_off_us, trace }),
        2 => (id_strategy(), tc_strategy()).prop_map(|(id, trace)| MsgSpec::Cancel { id, trace }),
        3 => (id_strategy(), body).prop_map(|(id, b)| MsgSpec::Response { id, result: Ok(b) }),
        3 => (id_strategy(), 0u8..(ALL_KINDS.len() as u8), "[ -~]{0,16}").prop_map(|(id, k, d)| MsgSpec::Response { id, result: Err((k, d)) }),
    ]
    .boxed()
}

pub struct C15;
impl Prop for C15 {
    type Scenario = Sc15;
    fn id(&self) -> &'static str {
        "C15"
    }
    fn rule(&self) -> String {
        "Scenario = medium (channel::unbounded, channel::bounded(0-4), serde framed transport with JSON or bincode default options over a byte pipe) + direction + 0-40 protocol messages (Request/Cancel or Response with Ok/Err) \
         with bodies from a recursive serde enum (unit, boundary integers, empty/unicode/64 KiB strings, bytes, options, nesting), ids from {0,1,2^32-1,2^32,2^32+1,u64::MAX,random}, trace/span ids at boundaries, both sampling decisions, every stable io::ErrorKind, \
         deadlines past/now/future under a frozen virtual clock; generated fragmentation scripts (partial reads, partial writes, Pending results) on both directions; flush cadence; close-then-drop or drop; eager or lazy reader (a lazy reader is polled only when the writer is blocked or gone, so the writer is dropped with messages still queued). \
         Oracle = round trip: the reader yields exactly the written sequence field by field (deadline as max(D, now); the 18 portable kinds identical, others Other), never an error, end-of-stream only after the writer finished, and it does come. \
         Plus a fixed differential sub-check: a JSON Cancel without trace_context decodes to the default context. Non-trivial = >=3 messages of >=2 variants with a frame split across reads and a partial write, or an error-kind message on a serde medium; distinct = distinct scenario JSON."
            .into()
    }
    fn work(&self, tier: Tier) -> Work {
        match tier {
            Tier::Quick => Work { cases_per_worker: 4000, workers: 8 },
            Tier::Thorough => Work { cases_per_worker: 80000, workers: 16 },
        }
    }
    fn strategy(&self, _tier: Tier) -> BoxedStrategy<Sc15> {
        let medium = prop_oneof![
            1 => Just(MediumSpec::Unbounded),
            2 => (0u8..5).prop_map(MediumSpec::Bounded),
            4 => Just(MediumSpec::Json),
            4 => Just(MediumSpec::Bincode),
        ];
        let script = prop_oneof![
            Just(vec![]),
            proptest::collection::vec(prop_oneof![Just(0u8), 1u8..4, 1u8..40, Just(255u8)], 1..8),
        ];
        (
            medium,
            any::<bool>(),
            proptest::collection::vec(msg_strategy(), 0..40),
            script.clone(),
            script,
            any::<bool>(),
            0u8..4,
            any::<bool>(),
        )
            .prop_map(|(medium, client_to_server, msgs, mut write_script, mut read_script, close_before_drop, flush_every, lazy_reader)| {
                // a script of only Pending would never make progress
                if !write_script.is_empty() && write_script.iter().all(|x| *x == 0) {
                    write_script.push(3);
                }
                if !read_script.is_empty() && read_script.iter().all(|x| *x == 0) {
                    read_script.push(3);
                }
                Sc15 { medium, client_to_server, msgs, write_script, read_script, close_before_drop, flush_every, lazy_reader }
            })
            .boxed()
    }
    fn run_case(&self, sc: &Sc15) -> CaseResult {
        check(sc)
    }
    fn extra(&self, tier: Tier, seed: u64) -> Result<crate::sim::runner::ExtraStats, Violation> {
        minimal_json_defaults().map_err(Violation::new)?;
        // generated: a peer that omits the optional fields is understood for every id / body
        use proptest::strategy::ValueTree;
        use proptest::test_runner::{Config, RngSeed, TestRunner};
        let n = match tier {
            Tier::Quick => 2_000u64,
            Tier::Thorough => 50_000,
        };
        let mut runner = TestRunner::new(Config { rng_seed: RngSeed::Fixed(seed ^ 0x15), failure_persistence: None, ..Config::default() });
        let strat = (id_strategy(), body_strategy());
        let mut st = crate::sim::runner::ExtraStats::default();
        for k in 0..n {
            let (id, body) = strat.new_tree(&mut runner).map_err(|e| Violation::new(format!("generator: {e}")))?.current();
            omitted_fields_case(id, &body).map_err(|m| {
                Violation::new(m).with_detail(json!({"id": id.to_string(), "body": body}))
            })?;
            st.evaluations += 1;
            st.nontrivial += 1;
            if k < 2 {
                st.samples.push(json!({"omitted_fields_case": {"id": id.to_string(), "body": body}}));
            }
        }
        st.notes.insert("omitted_optional_fields".into(), json!("JSON Cancel without trace_context and JSON Request whose context omits deadline (and trace_context) decode, for generated ids and bodies, to the stated defaults"));
        Ok(st)
    }
}
