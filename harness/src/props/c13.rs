//! C13 — Per-key channel limit is never exceeded nor over-applied.
//! Engine E: the real `Incoming::max_channels_per_key` over a scripted listener of real BaseChannels.

use crate::sim::runner::{CaseOk, CaseResult, Prop, Tier, Violation, Work};
use futures::task::{waker, ArcWake};
use futures::{Sink, Stream};
use proptest::prelude::*;
use serde::{Deserialize, Serialize};
use serde_json::json;
use std::cell::RefCell;
use std::collections::{BTreeMap, VecDeque};
use std::pin::Pin;
use std::rc::Rc;
use std::sync::atomic::{AtomicBool, Ordering};
use std::sync::Arc;
use std::task::{Context, Poll, Waker};
use tarpc::server::incoming::Incoming;
use tarpc::server::BaseChannel;
use tarpc::{ClientMessage, Response};

#[derive(Clone, Debug, Serialize, Deserialize, PartialEq, Eq)]
pub enum Op13 {
    Arrive { key: u8 },
    Close { sel: u16 },
    Poll,
    EndListener,
    /// close a live channel of some key and immediately let a channel of the same key arrive (before any poll)
    CloseThenArrive { sel: u16 },
}

#[derive(Clone, Debug, Serialize, Deserialize, PartialEq, Eq)]
pub struct Sc13 {
    pub n: u32,
    pub ops: Vec<Op13>,
}

/// A transport that is never used; it only carries its key and arrival index.
pub struct KeyedTransport {
    pub key: u32,
    pub idx: usize,
}

#[derive(Debug)]
pub struct NeverErr;
impl std::fmt::Display for NeverErr {
    fn fmt(&self, f: &mut std::fmt::Formatter<'_>) -> std::fmt::Result {
        write!(f, "never")
    }
}
impl std::error::Error for NeverErr {}

impl Stream for KeyedTransport {
    type Item = Result<ClientMessage<u64>, NeverErr>;
    fn poll_next(self: Pin<&mut Self>, _: &mut Context<'_>) -> Poll<Option<Self::Item>> {
        Poll::Pending
    }
}
impl Sink<Response<u64>> for KeyedTransport {
    type Error = NeverErr;
    fn poll_ready(self: Pin<&mut Self>, _: &mut Context<'_>) -> Poll<Result<(), NeverErr>> {
        Poll::Ready(Ok(()))
    }
    fn start_send(self: Pin<&mut Self>, _: Response<u64>) -> Result<(), NeverErr> {
        Ok(())
    }
    fn poll_flush(self: Pin<&mut Self>, _: &mut Context<'_>) -> Poll<Result<(), NeverErr>> {
        Poll::Ready(Ok(()))
    }
    fn poll_close(self: Pin<&mut Self>, _: &mut Context<'_>) -> Poll<Result<(), NeverErr>> {
        Poll::Ready(Ok(()))
    }
}

type Chan = BaseChannel<u64, u64, KeyedTransport>;

#[derive(Default)]
struct ListenerState {
    queue: VecDeque<Chan>,
    ended: bool,
    waker: Option<Waker>,
}

struct Listener(Rc<RefCell<ListenerState>>);
impl Stream for Listener {
    type Item = Chan;
    fn poll_next(self: Pin<&mut Self>, cx: &mut Context<'_>) -> Poll<Option<Chan>> {
        let mut s = self.0.borrow_mut();
        match s.queue.pop_front() {
            Some(c) => Poll::Ready(Some(c)),
            None if s.ended => Poll::Ready(None),
            None => {
                s.waker = Some(cx.waker().clone());
                Poll::Pending
            }
        }
    }
}

struct Flag(AtomicBool);
impl ArcWake for Flag {
    fn wake_by_ref(a: &Arc<Self>) {
        a.0.store(true, Ordering::SeqCst);
    }
}

pub fn check(sc: &Sc13) -> CaseResult {
    let n = sc.n.max(1);
    let st = Rc::new(RefCell::new(ListenerState::default()));
    let filter = Listener(st.clone()).max_channels_per_key(n, |c: &Chan| c.get_ref().key);
    let mut filter = Box::pin(filter);
    let flag = Arc::new(Flag(AtomicBool::new(true)));
    let w = waker(flag.clone());
    let mut cx = Context::from_waker(&w);

    // model
    let mut arrivals: VecDeque<(usize, u32)> = VecDeque::new(); // (idx, key) not yet processed by the listener
    let mut live: BTreeMap<u32, Vec<usize>> = BTreeMap::new(); // key -> arrival idxs alive
    let mut live_objs: Vec<(usize, u32, Box<dyn std::any::Any>)> = vec![];
    let mut next_idx = 0usize;
    let mut ended = false;
    let mut stream_done = false;
    let mut log: Vec<String> = vec![];
    let mut shed_total = 0usize;
    let mut yielded_total = 0usize;
    let mut close_rearrive_same_poll = false;
    let mut pending_close_keys: Vec<u32> = vec![]; // keys closed since the last poll
    let mut reopened_with_sibling = false;

    let mut ops = sc.ops.clone();
    ops.push(Op13::EndListener);
    for _ in 0..(sc.ops.len() + 4) {
        ops.push(Op13::Poll);
    }

    let fail = |msg: String, log: &Vec<String>| -> CaseResult {
        Err(Violation::new(msg).with_detail(json!({"n": n, "log": log})))
    };

    for op in &ops {
        let mut do_arrive = |key: u32, arrivals: &mut VecDeque<(usize, u32)>, next_idx: &mut usize, log: &mut Vec<String>| {
            if ended {
                return;
            }
            let idx = *next_idx;
            *next_idx += 1;
            let ch = BaseChannel::with_defaults(KeyedTransport { key, idx });
            let w = {
                let mut s = st.borrow_mut();
                s.queue.push_back(ch);
                s.waker.take()
            };
            if let Some(w) = w {
                w.wake();
            }
            arrivals.push_back((idx, key));
            log.push(format!("arrive #{idx} key={key}"));
        };
        match op {
            Op13::Arrive { key } => {
                let key = (*key % 3) as u32;
                if pending_close_keys.contains(&key) {
                    close_rearrive_same_poll = true;
                }
                do_arrive(key, &mut arrivals, &mut next_idx, &mut log);
            }
            Op13::Close { sel } | Op13::CloseThenArrive { sel } => {
                if live_objs.is_empty() {
                    continue;
                }
                let i = ((*sel as usize) * live_objs.len()) >> 16;
                let (idx, key, obj) = live_objs.remove(i);
                drop(obj);
                live.get_mut(&key).unwrap().retain(|x| *x != idx);
                pending_close_keys.push(key);
                log.push(format!("close #{idx} key={key}"));
                if let Op13::CloseThenArrive { .. } = op {
                    close_rearrive_same_poll = true;
                    if live.get(&key).map_or(false, |v| !v.is_empty()) {
                        reopened_with_sibling = true;
                    }
                    do_arrive(key, &mut arrivals, &mut next_idx, &mut log);
                }
            }
            Op13::EndListener => {
                if !ended {
                    ended = true;
                    let w = {
                        let mut s = st.borrow_mut();
                        s.ended = true;
                        s.waker.take()
                    };
                    if let Some(w) = w {
                        w.wake();
                    }
                    log.push("end-listener".into());
                }
            }
            Op13::Poll => {
                if stream_done {
                    continue;
                }
                pending_close_keys.clear();
                // model: process arrivals in order until one is admitted
                let mut expect: Option<(usize, u32)> = None;
                let mut shed_now = vec![];
                while let Some((idx, key)) = arrivals.pop_front() {
                    let alive = live.get(&key).map_or(0, |v| v.len());
                    if (alive as u32) < n {
                        expect = Some((idx, key));
                        break;
                    } else {
                        shed_now.push((idx, key, alive));
                    }
                }
                let r = crate::sim::exec::catch(|| filter.as_mut().poll_next(&mut cx));
                let r = match r {
                    Ok(r) => r,
                    Err(m) => return fail(format!("panic in the channel filter: {m}"), &log),
                };
                match (r, expect) {
                    (Poll::Ready(Some(ch)), Some((idx, key))) => {
                        let got_idx = ch.get_ref().get_ref().idx;
                        let got_key = ch.get_ref().get_ref().key;
                        if got_idx != idx {
                            // which one did it yield? classify
                            if let Some((_, _, alive)) = shed_now.iter().find(|(i, _, _)| *i == got_idx) {
                                return fail(
                                    format!("channel #{got_idx} (key {got_key}) was yielded although {alive} channels with its key are alive (limit {n})"),
                                    &log,
                                );
                            }
                            return fail(format!("expected channel #{idx} to be yielded, got #{got_idx}"), &log);
                        }
                        log.push(format!("poll -> yield #{idx} key={key} (shed {:?})", shed_now.iter().map(|x| x.0).collect::<Vec<_>>()));
                        live.entry(key).or_default().push(idx);
                        if live[&key].len() as u32 > n {
                            return fail(format!("{} channels with key {key} alive, limit {n}", live[&key].len()), &log);
                        }
                        live_objs.push((idx, key, Box::new(ch)));
                        yielded_total += 1;
                        shed_total += shed_now.len();
                    }
                    (Poll::Ready(Some(ch)), None) => {
                        let got_idx = ch.get_ref().get_ref().idx;
                        let got_key = ch.get_ref().get_ref().key;
                        let alive = live.get(&got_key).map_or(0, |v| v.len());
                        return fail(
                            format!("channel #{got_idx} (key {got_key}) was yielded although {alive} channels with its key are alive (limit {n}): the limit is exceeded"),
                            &log,
                        );
                    }
                    (Poll::Pending, Some((idx, key))) | (Poll::Ready(None), Some((idx, key))) => {
                        let alive = live.get(&key).map_or(0, |v| v.len());
                        return fail(
                            format!("channel #{idx} (key {key}) was shed (or not yielded) although only {alive} channels with its key are alive (limit {n})"),
                            &log,
                        );
                    }
                    (Poll::Pending, None) => {
                        shed_total += shed_now.len();
                        log.push(format!("poll -> pending (shed {:?})", shed_now.iter().map(|x| x.0).collect::<Vec<_>>()));
                    }
                    (Poll::Ready(None), None) => {
                        shed_total += shed_now.len();
                        if !ended || !arrivals.is_empty() {
                            return fail("the filtered stream ended although the listener has not ended".into(), &log);
                        }
                        stream_done = true;
                        log.push("poll -> end".into());
                    }
                }
            }
        }
    }
    let mut classes = vec![];
    if shed_total > 0 {
        classes.push("shed");
    }
    if close_rearrive_same_poll {
        classes.push("close-and-same-key-arrival-before-one-poll");
    }
    if reopened_with_sibling {
        classes.push("reopen-while-sibling-alive");
    }
    if yielded_total >= 3 {
        classes.push("yielded>=3");
    }
    Ok(CaseOk { nontrivial: close_rearrive_same_poll && yielded_total >= 2, classes, excluded_known: 0 })
}

pub struct C13;
impl Prop for C13 {
    type Scenario = Sc13;
    fn id(&self) -> &'static str {
        "C13"
    }
    fn rule(&self) -> String {
        "Scenario = limit n in 1..=3 + up to 60 generated ops over keys 0..3 on the real Incoming::max_channels_per_key filter fed by a scripted listener of real BaseChannels: Arrive(key), Close(live yielded channel), \
         CloseThenArrive (a close and a same-key arrival both pending at one poll), Poll (one poll_next), EndListener; then the listener is ended and polled out. \
         Oracle = exact model (live yielded channels per key): each poll yields exactly the first queued arrival whose key has fewer than n live channels at that moment and sheds exactly those before it whose key has n alive; \
         never more than n alive per key; the stream ends only after the listener ended. Non-trivial = a close and a same-key arrival were both pending before one poll and >=2 channels were yielded; distinct = distinct scenario JSON."
            .into()
    }
    fn work(&self, tier: Tier) -> Work {
        match tier {
            Tier::Quick => Work { cases_per_worker: 12500, workers: 8 },
            Tier::Thorough => Work { cases_per_worker: 200000, workers: 16 },
        }
    }
    fn strategy(&self, _tier: Tier) -> BoxedStrategy<Sc13> {
        let op = prop_oneof![
            6 => (0u8..3).prop_map(|key| Op13::Arrive { key }),
            3 => any::<u16>().prop_map(|sel| Op13::Close { sel }),
            5 => Just(Op13::Poll),
            3 => any::<u16>().prop_map(|sel| Op13::CloseThenArrive { sel }),
        ];
        (1u32..=3, proptest::collection::vec(op, 0..60)).prop_map(|(n, ops)| Sc13 { n, ops }).boxed()
    }
    fn run_case(&self, sc: &Sc13) -> CaseResult {
        check(sc)
    }
}
