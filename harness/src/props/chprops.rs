//! Chain-engine monitors: C07 (deadline propagation), C18 (trace context), C04 cascade.

use crate::engines::chain::{run_chain, ChOp, ChainCfg, ChainRun, Medium};
use crate::engines::client::Dl;
use crate::sim::hist::{Ev, IoOp, IoRes, Msg, Outcome, Tc};
use crate::sim::runner::{CaseOk, CaseResult, Violation};
use proptest::prelude::*;
use serde::{Deserialize, Serialize};
use serde_json::json;
use std::collections::{BTreeMap, BTreeSet};

#[derive(Clone, Debug, Serialize, Deserialize, PartialEq, Eq)]
pub struct ChScenario {
    pub cfg: ChainCfg,
    pub ops: Vec<ChOp>,
}

#[derive(Clone, Debug)]
pub struct WireReq {
    pub seq: usize,
    pub t_ns: u64,
    pub id: u64,
    pub deadline_ns: i128,
    pub trace: Tc,
}

pub struct ChView<'a> {
    pub run: &'a ChainRun,
    /// (hop, body) -> request as written by hop's client
    pub sent: BTreeMap<(usize, u64), WireReq>,
    /// (hop, body) -> request as read by hop's server
    pub read: BTreeMap<(usize, u64), WireReq>,
    /// (hop, id) -> cancels written (seq, trace)
    pub cancels_sent: BTreeMap<(usize, u64), Vec<(usize, Tc)>>,
    /// (hop, id) -> responses read by hop's client
    pub responses_read: BTreeMap<(usize, u64), Vec<usize>>,
    pub handler_start: BTreeMap<(usize, u64), (usize, u64)>,
    pub handler_end: BTreeMap<(usize, u64), (usize, bool)>,
    pub errors: Vec<String>,
}

fn field<'t>(text: &'t str, key: &str) -> Option<&'t str> {
    text.split_whitespace().find_map(|w| w.strip_prefix(key))
}

impl<'a> ChView<'a> {
    pub fn new(run: &'a ChainRun) -> Self {
        let mut v = ChView {
            run,
            sent: Default::default(),
            read: Default::default(),
            cancels_sent: Default::default(),
            responses_read: Default::default(),
            handler_start: Default::default(),
            handler_end: Default::default(),
            errors: vec![],
        };
        for r in &run.recs {
            match &r.ev {
                Ev::Io { tr, op: IoOp::Send, sent: Some(m), res, .. } if tr % 2 == 0 => {
                    let hop = (*tr / 2) as usize;
                    match m {
                        Msg::Request { id, body, deadline_ns, trace } => {
                            if matches!(res, IoRes::Ok) {
                                v.sent.insert((hop, *body), WireReq { seq: r.seq, t_ns: r.t_ns, id: *id, deadline_ns: *deadline_ns, trace: *trace });
                            }
                        }
                        Msg::Cancel { id, trace } => v.cancels_sent.entry((hop, *id)).or_default().push((r.seq, *trace)),
                        _ => {}
                    }
                }
                Ev::Io { tr, op: IoOp::Next, res, .. } => {
                    let hop = (*tr / 2) as usize;
                    match res {
                        IoRes::Item(Msg::Request { id, body, deadline_ns, trace }) if tr % 2 == 1 => {
                            v.read.insert((hop, *body), WireReq { seq: r.seq, t_ns: r.t_ns, id: *id, deadline_ns: *deadline_ns, trace: *trace });
                        }
                        IoRes::Item(Msg::Response { id, .. }) if tr % 2 == 0 => {
                            v.responses_read.entry((hop, *id)).or_default().push(r.seq);
                        }
                        IoRes::ItemErr => v.errors.push(format!("seq {}: transport {tr} yielded an error item", r.seq)),
                        _ => {}
                    }
                }
                Ev::Io { tr, res: IoRes::Err, op, .. } => v.errors.push(format!("seq {}: transport {tr} {:?} failed", r.seq, op)),
                Ev::Note { text } => {
                    if text.starts_with("HopHandlerStart") {
                        let hop: usize = field(text, "hop=").and_then(|x| x.parse().ok()).unwrap_or(9);
                        let body: u64 = field(text, "body=").and_then(|x| x.parse().ok()).unwrap_or(0);
                        v.handler_start.insert((hop, body), (r.seq, r.t_ns));
                    } else if text.starts_with("HopHandlerEnd") {
                        let hop: usize = field(text, "hop=").and_then(|x| x.parse().ok()).unwrap_or(9);
                        let body: u64 = field(text, "body=").and_then(|x| x.parse().ok()).unwrap_or(0);
                        let fin = field(text, "finished=") == Some("true");
                        v.handler_end.insert((hop, body), (r.seq, fin));
                    } else if text.contains(" error: ") {
                        v.errors.push(text.clone());
                    }
                }
                _ => {}
            }
        }
        v
    }
    pub fn tail(&self, n: usize) -> serde_json::Value {
        let n = if std::env::var("VERIF_FULL").is_ok() { usize::MAX } else { n };
        let r = &self.run.recs;
        serde_json::to_value(&r[r.len().saturating_sub(n)..]).unwrap_or_default()
    }
}

fn fail(v: &ChView, msg: String) -> CaseResult {
    Err(Violation::new(msg).with_detail(json!({"history_tail": v.tail(90)})))
}

fn common(v: &ChView) -> Option<String> {
    if let Some((t, m)) = v.run.panics.first() {
        return Some(format!("panic in task {t}: {m}"));
    }
    if v.run.livelock {
        return Some("livelock".into());
    }
    None
}

// ---------------------------------------------------------------------------------- generators

pub struct ChProfile {
    pub w_step: u32,
    pub w_drain: u32,
    pub w_call: u32,
    pub w_drop: u32,
    pub w_advance: u32,
    pub w_complete: u32,
    pub max_ops: usize,
    pub media: Vec<Medium>,
    pub subscribers: Vec<u8>,
    pub dl_far: u32,
    pub dl_short: u32,
    pub dl_past: u32,
    pub max_calls_hint: u32,
    /// probability of the sole-owner topology (handlers own their downstream client)
    pub sole_owner: f64,
}

pub fn strategy(p: &ChProfile) -> BoxedStrategy<ChScenario> {
    let dl = {
        let mut v: Vec<(u32, BoxedStrategy<Dl>)> = vec![];
        if p.dl_far > 0 {
            v.push((p.dl_far, prop_oneof![(30u64..20_000).prop_map(Dl::InSecs), (1u64..30).prop_map(Dl::InSecs)].boxed()));
        }
        if p.dl_short > 0 {
            v.push((p.dl_short, prop_oneof![(0u64..3_000_000).prop_map(Dl::InUs), Just(Dl::InUs(0))].boxed()));
        }
        if p.dl_past > 0 {
            v.push((p.dl_past, (0u64..5_000_000).prop_map(Dl::PastUs).boxed()));
        }
        proptest::strategy::Union::new_weighted(v)
    };
    let op = proptest::strategy::Union::new_weighted(vec![
        (p.w_step, any::<u16>().prop_map(|sel| ChOp::Step { sel }).boxed()),
        (p.w_drain, Just(ChOp::Drain).boxed()),
        (p.w_call, (dl, 0u16..4, any::<bool>()).prop_map(|(dl, trace, sampled)| ChOp::Call { dl, trace, sampled }).boxed()),
        (p.w_drop.max(1), any::<u16>().prop_map(|sel| ChOp::DropCall { sel }).boxed()),
        (
            p.w_advance.max(1),
            prop_oneof![(0u64..3_000).prop_map(|us| ChOp::Advance { us }), (0u64..2_000).prop_map(|ms| ChOp::Advance { us: ms * 1000 })].boxed(),
        ),
        (p.w_complete.max(1), (any::<u16>(), proptest::bool::weighted(0.2)).prop_map(|(sel, err)| ChOp::CompleteLeaf { sel, err }).boxed()),
    ]);
    let media = p.media.clone();
    let subs = p.subscribers.clone();
    (1usize..=3, proptest::sample::select(media), proptest::sample::select(subs), proptest::bool::weighted(p.sole_owner), proptest::collection::vec(op, 0..p.max_ops))
        .prop_map(|(depth, medium, subscriber, sole_owner, ops)| ChScenario { cfg: ChainCfg { depth, medium, subscriber, sole_owner }, ops })
        .boxed()
}

// ---------------------------------------------------------------------------------- C07

pub fn c07_profile() -> ChProfile {
    ChProfile {
        w_step: 40,
        w_drain: 2,
        w_call: 8,
        w_drop: 1,
        w_advance: 34,
        w_complete: 6,
        max_ops: 80,
        media: vec![Medium::Mem, Medium::Json, Medium::Bincode],
        subscribers: vec![0, 0, 1, 2],
        dl_far: 6,
        dl_short: 5,
        dl_past: 2,
        max_calls_hint: 6,
        sole_owner: 0.0,
    }
}

pub fn c07_check(sc: &ChScenario) -> CaseResult {
    let mut ops = sc.ops.clone();
    ops.push(ChOp::Drain);
    ops.push(ChOp::CompleteAllLeaves);
    ops.push(ChOp::Drain);
    let run = run_chain(&sc.cfg, &ops);
    let v = ChView::new(&run);
    if let Some(m) = common(&v) {
        return fail(&v, m);
    }
    if let Some(e) = v.errors.first() {
        return fail(&v, format!("a transport reported an error while carrying well-formed requests (a deadline must never make decoding fail): {e}"));
    }
    let depth = sc.cfg.depth.clamp(1, 3);
    let mut classes: BTreeSet<&'static str> = BTreeSet::new();
    let mut nontrivial = false;
    for c in &run.calls {
        let mut total_transit: i128 = 0;
        let mut hops_with_delay = 0;
        for k in 0..depth {
            let Some(s) = v.sent.get(&(k, c.body)) else { break };
            // the deadline the caller of this hop put into its context
            let d_in: i128 = if k == 0 {
                c.deadline_ns
            } else {
                match run.started.get(&(k - 1, c.body)) {
                    Some(x) => x.0,
                    None => break,
                }
            };
            if s.deadline_ns != d_in {
                return fail(&v, format!(
                    "hop {k}, call body {}: the request was written with deadline {}ns but the caller's context said {d_in}ns",
                    c.body, s.deadline_ns
                ));
            }
            let Some(r) = v.read.get(&(k, c.body)) else { continue };
            let Some(h) = run.started.get(&(k, c.body)) else { continue };
            let d_out = h.0;
            if d_out != r.deadline_ns {
                return fail(&v, format!("hop {k}: the handler's context deadline {d_out}ns differs from the decoded request's deadline {}ns", r.deadline_ns));
            }
            let (t_s, t_r) = (s.t_ns as i128, r.t_ns as i128);
            let transit = t_r - t_s;
            total_transit += transit;
            if transit > 0 {
                hops_with_delay += 1;
            }
            match sc.cfg.medium {
                Medium::Mem => {
                    if d_out != d_in {
                        return fail(&v, format!("hop {k} (in-memory transport): handler observed deadline {d_out}ns, caller's was {d_in}ns"));
                    }
                }
                _ => {
                    if d_in > t_s {
                        if d_out < d_in || d_out > d_in + transit {
                            return fail(&v, format!(
                                "hop {k} ({:?}): caller deadline {d_in}ns, serialised at {t_s}ns, deserialised at {t_r}ns (transit {transit}ns); handler observed {d_out}ns, outside [{d_in}, {}]",
                                sc.cfg.medium,
                                d_in + transit
                            ));
                        }
                    } else {
                        classes.insert("expired-at-serialisation");
                        nontrivial = true;
                        if d_out != t_r {
                            return fail(&v, format!(
                                "hop {k} ({:?}): caller deadline {d_in}ns had passed at serialisation ({t_s}ns); it must arrive as 'now' ({t_r}ns) but the handler observed {d_out}ns",
                                sc.cfg.medium
                            ));
                        }
                    }
                }
            }
            // never outlives the original deadline by more than accumulated transit
            if c.deadline_ns > c.created_ns as i128 && d_out > c.deadline_ns.max(t_r) + total_transit {
                return fail(&v, format!(
                    "hop {k}: handler deadline {d_out}ns outlives the original caller's deadline {}ns by more than the accumulated transit time {total_transit}ns",
                    c.deadline_ns
                ));
            }
            if sc.cfg.subscriber == 2 && h.2 != d_out {
                return fail(&v, format!(
                    "hop {k}: with an OpenTelemetry subscriber context::current().deadline inside the handler is {}ns but the handler's context argument says {d_out}ns",
                    h.2
                ));
            }
        }
        if hops_with_delay >= 2 {
            classes.insert(">=2-hops-with-transit-delay");
            nontrivial = true;
        }
    }
    match sc.cfg.medium {
        Medium::Mem => classes.insert("mem"),
        Medium::Json => classes.insert("json"),
        Medium::Bincode => classes.insert("bincode"),
    };
    if sc.cfg.subscriber == 2 {
        classes.insert("otel-subscriber");
    }
    Ok(CaseOk { nontrivial, classes: classes.into_iter().collect(), excluded_known: 0 })
}

// ---------------------------------------------------------------------------------- C18

pub fn c18_profile() -> ChProfile {
    ChProfile {
        w_step: 40,
        w_drain: 6,
        w_call: 16,
        w_drop: 8,
        w_advance: 2,
        w_complete: 8,
        max_ops: 60,
        media: vec![Medium::Mem, Medium::Mem, Medium::Json, Medium::Bincode],
        // 0 none, 1 a plain formatting subscriber (spans enabled, no OpenTelemetry layer), 2 OpenTelemetry layer
        subscribers: vec![0, 0, 1, 1, 2],
        dl_far: 10,
        dl_short: 1,
        dl_past: 0,
        max_calls_hint: 8,
        sole_owner: 0.0,
    }
}

pub fn c18_check(sc: &ChScenario) -> CaseResult {
    let mut ops = sc.ops.clone();
    ops.push(ChOp::Drain);
    let run = run_chain(&sc.cfg, &ops);
    let v = ChView::new(&run);
    if let Some(m) = common(&v) {
        return fail(&v, m);
    }
    let depth = sc.cfg.depth.clamp(1, 3);
    let mut classes: BTreeSet<&'static str> = BTreeSet::new();
    let mut cancels = 0usize;
    let mut max_depth_seen = 0usize;
    for c in &run.calls {
        let mut spans: Vec<(String, u64)> = vec![("caller".into(), c.trace.span_id)];
        let mut expect: Option<(u128, bool)> = if sc.cfg.subscriber == 0 { Some((c.trace.trace_id, c.trace.sampled)) } else { None };
        for k in 0..depth {
            let Some(s) = v.sent.get(&(k, c.body)) else { break };
            max_depth_seen = max_depth_seen.max(k + 1);
            if let Some((tid, smp)) = expect {
                if s.trace.trace_id != tid {
                    return fail(&v, format!(
                        "hop {k}, call body {}: request transmitted with trace id {:x}, expected {:x} ({})",
                        c.body, s.trace.trace_id, tid, if k == 0 { "the caller-supplied one" } else { "the one the previous hop's handler observed" }
                    ));
                }
                if s.trace.sampled != smp {
                    return fail(&v, format!("hop {k}, call body {}: request transmitted with sampling decision {}, expected {smp}", c.body, s.trace.sampled));
                }
            }
            spans.push((format!("wire{k}"), s.trace.span_id));
            // cancel carries the request's own trace context, field for field
            if let Some(cs) = v.cancels_sent.get(&(k, s.id)) {
                for (cseq, ct) in cs {
                    cancels += 1;
                    if *ct != s.trace {
                        return fail(&v, format!(
                            "hop {k}: Cancel for request id {} (seq {cseq}) carries trace context {ct:?} but the request was transmitted with {:?}",
                            s.id, s.trace
                        ));
                    }
                }
            }
            let Some(r) = v.read.get(&(k, c.body)) else { break };
            if r.trace != s.trace {
                return fail(&v, format!("hop {k}: request read with trace context {:?} but written with {:?}", r.trace, s.trace));
            }
            let Some(h) = run.started.get(&(k, c.body)) else { break };
            let ht = h.1;
            if ht.trace_id != s.trace.trace_id || ht.sampled != s.trace.sampled {
                return fail(&v, format!(
                    "hop {k}: the handler observed trace id {:x} / sampled {} but the request was transmitted with {:x} / {}",
                    ht.trace_id, ht.sampled, s.trace.trace_id, s.trace.sampled
                ));
            }
            spans.push((format!("handler{k}"), ht.span_id));
            expect = Some((ht.trace_id, ht.sampled));
        }
        // each hop gets a fresh span id
        for i in 0..spans.len() {
            for j in (i + 1)..spans.len() {
                if spans[i].1 == spans[j].1 {
                    return fail(&v, format!("call body {}: span id {:x} is shared by {} and {} (each hop must get a fresh span id)", c.body, spans[i].1, spans[i].0, spans[j].0));
                }
            }
        }
    }
    // every request a hop transmits has a span id of its own (a fresh span id per hop, in every subscriber mode)
    {
        let mut seen: BTreeMap<(usize, u64), u64> = BTreeMap::new();
        for ((hop, body), s) in &v.sent {
            if let Some(other) = seen.insert((*hop, s.trace.span_id), *body) {
                if other != *body {
                    return fail(&v, format!(
                        "hop {hop}: requests {other} and {body} were transmitted with the same span id {:x} (each hop must get a fresh span id; concurrent requests must not share a trace context)",
                        s.trace.span_id
                    ));
                }
            }
        }
    }
    // concurrent requests never exchange trace contexts (no subscriber: injective as supplied)
    if sc.cfg.subscriber == 0 {
        let mut seen: BTreeMap<u128, u64> = BTreeMap::new();
        for ((hop, body), s) in &v.sent {
            if *hop == 0 {
                if let Some(other) = seen.insert(s.trace.trace_id, *body) {
                    if other != *body {
                        return fail(&v, format!("requests {other} and {body} were transmitted with the same trace id"));
                    }
                }
            }
        }
    }
    let concurrent = {
        let mut live = 0usize;
        let mut best = 0usize;
        for r in &run.recs {
            match &r.ev {
                Ev::CallCreated { .. } => {
                    live += 1;
                    best = best.max(live);
                }
                Ev::CallResolved { .. } | Ev::CallDropped { .. } => live = live.saturating_sub(1),
                _ => {}
            }
        }
        best
    };
    if cancels > 0 {
        classes.insert("cancel-on-wire");
    }
    if max_depth_seen >= 2 {
        classes.insert("depth>=2");
    }
    if concurrent >= 3 {
        classes.insert("concurrent>=3");
    }
    if sc.cfg.subscriber == 2 {
        classes.insert("otel-subscriber");
    }
    if sc.cfg.subscriber == 1 {
        classes.insert("fmt-subscriber-without-otel");
    }
    let nontrivial = (concurrent >= 3 && cancels >= 1) || max_depth_seen >= 2;
    Ok(CaseOk { nontrivial, classes: classes.into_iter().collect(), excluded_known: 0 })
}

// ---------------------------------------------------------------------------------- C04 cascade

pub fn c04c_profile() -> ChProfile {
    ChProfile {
        w_step: 40,
        w_drain: 5,
        w_call: 12,
        w_drop: 10,
        w_advance: 1,
        w_complete: 6,
        max_ops: 60,
        media: vec![Medium::Mem, Medium::Mem, Medium::Json, Medium::Bincode],
        subscribers: vec![0],
        dl_far: 10,
        dl_short: 0,
        dl_past: 0,
        max_calls_hint: 6,
        sole_owner: 0.35,
    }
}

pub fn c04c_check(sc: &ChScenario) -> CaseResult {
    let mut ops = sc.ops.clone();
    ops.push(ChOp::Drain);
    let run = run_chain(&sc.cfg, &ops);
    let v = ChView::new(&run);
    if let Some(m) = common(&v) {
        return fail(&v, m);
    }
    let depth = sc.cfg.depth.clamp(1, 3);
    let final_t = run.recs.last().map(|r| r.t_ns).unwrap_or(0) as i128;
    let mut classes: BTreeSet<&'static str> = BTreeSet::new();
    let mut nontrivial = false;
    for c in &run.calls {
        let (res, dropped) = &run.states[c.call];
        let Some((dseq, _)) = dropped else { continue };
        if res.is_some() {
            continue;
        }
        if final_t >= c.deadline_ns {
            continue; // expiry may have ended things first
        }
        classes.insert("head-call-abandoned");
        let mut unfinished_leaf = false;
        for k in 0..depth {
            let Some(s) = v.sent.get(&(k, c.body)) else { break };
            // downstream wire shows Cancel after Request, unless the request had already been answered
            let answered = v.responses_read.get(&(k, s.id)).map_or(false, |x| !x.is_empty());
            let cancelled = v.cancels_sent.get(&(k, s.id)).map_or(false, |x| x.iter().any(|(cs, _)| *cs > s.seq));
            if !answered && !cancelled {
                return fail(&v, format!(
                    "head call (body {}) was abandoned at seq {dseq}; hop {k}'s request (id {}) was on the wire and unanswered but no cancellation followed it after everything was delivered and run to quiescence",
                    c.body, s.id
                ));
            }
            // the handler at this hop must not be left running
            if let Some((hs, _)) = v.handler_start.get(&(k, c.body)) {
                match v.handler_end.get(&(k, c.body)) {
                    None => {
                        return fail(&v, format!(
                            "head call (body {}) was abandoned; hop {k}'s handler (started at seq {hs}) is still alive at quiescence: the cancellation did not cascade",
                            c.body
                        ));
                    }
                    Some((_, fin)) => {
                        if !*fin {
                            classes.insert("handler-dropped-unfinished");
                            if k + 1 == depth {
                                unfinished_leaf = true;
                            }
                        }
                    }
                }
            }
        }
        if depth >= 2 && unfinished_leaf {
            classes.insert("depth>=2-with-unfinished-leaf");
            nontrivial = true;
        }
        if sc.cfg.sole_owner && depth >= 2 && v.sent.contains_key(&(1, c.body)) {
            classes.insert("abandoned-handler-owned-its-downstream-client");
        }
    }
    // no handler polled after its own hop read the cancel is covered by the single-channel part
    let _ = Outcome::Shutdown;
    Ok(CaseOk { nontrivial, classes: classes.into_iter().collect(), excluded_known: 0 })
}

// ---------------------------------------------------------------------------------- C07: omitted deadline

/// A JSON request frame whose context omits `deadline` must be understood with the documented
/// 10-second default counted from the moment of decoding.
pub fn c07_no_deadline(transit_us: u64, id: u64, body: u64) -> CaseResult {
    use crate::sim::clock;
    use futures::StreamExt;
    use std::time::Duration;
    clock::enable_and_reset();
    let rt = crate::engines::client::new_runtime();
    let res: Result<(i128, u64), String> = rt.block_on(tokio::task::unconstrained(async {
        let mut ctx = tarpc::context::current();
        ctx.trace_context = Tc { trace_id: 77, span_id: 78, sampled: true }.to_tarpc();
        let msg = tarpc::ClientMessage::Request(tarpc::Request { context: ctx, id, message: body });
        let mut val = serde_json::to_value(&msg).map_err(|e| e.to_string())?;
        let removed = val
            .get_mut("Request")
            .and_then(|r| r.get_mut("context"))
            .and_then(|c| c.as_object_mut())
            .and_then(|o| o.remove("deadline"));
        if removed.is_none() {
            return Err("could not find the deadline field in the JSON encoding".into());
        }
        let bytes = serde_json::to_vec(&val).map_err(|e| e.to_string())?;
        let mut frame = (bytes.len() as u32).to_be_bytes().to_vec();
        frame.extend_from_slice(&bytes);
        let (a, b) = crate::sim::pipe::pipe();
        {
            let mut h = a.tx.borrow_mut();
            h.auto_deliver = true;
            for x in &frame {
                h.readable.push_back(*x);
            }
        }
        let transport = tarpc::serde_transport::Transport::<_, tarpc::ClientMessage<u64>, tarpc::Response<u64>, _>::from((
            b,
            tokio_serde::formats::Json::<tarpc::ClientMessage<u64>, tarpc::Response<u64>>::default(),
        ));
        let mut channel = Box::pin(tarpc::server::BaseChannel::with_defaults(transport));
        clock::advance(Duration::from_micros(transit_us)).await;
        let t_r = clock::now_ns();
        let item = futures::future::poll_fn(|cx| channel.as_mut().poll_next_unpin(cx)).await;
        let _keep = a;
        match item {
            Some(Ok(tr)) => Ok((clock::offset_of(tr.request.context.deadline), t_r)),
            Some(Err(e)) => Err(format!("decoding a request without a deadline failed: {e}")),
            None => Err("stream ended".into()),
        }
    }));
    drop(rt);
    clock::disable();
    match res {
        Err(m) => Err(Violation::new(m)),
        Ok((d, t_r)) => {
            let want = t_r as i128 + 10_000_000_000;
            if d != want {
                return Err(Violation::new(format!(
                    "a JSON request that omits its deadline, decoded at t={t_r}ns, got deadline {d}ns; the documented default is decode time + 10 s = {want}ns"
                )));
            }
            Ok(CaseOk { nontrivial: true, classes: vec!["omitted-deadline-json"], excluded_known: 0 })
        }
    }
}
