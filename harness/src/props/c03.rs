//! C03 — Abandoned calls are cancelled on the wire, exactly when needed.

use super::cgen::{scenario_strategy, CProfile, CScenario};
use super::cview::CView;
use crate::engines::client::{run_client, COp};
use crate::sim::hist::{Ev, IoOp, IoRes, Msg, Outcome};
use crate::sim::runner::{CaseOk, CaseResult, Prop, Tier, Violation, Work};
use proptest::prelude::*;
use serde_json::json;
use std::collections::{BTreeMap, BTreeSet};

pub struct C03;

pub fn profile() -> CProfile {
    CProfile {
        w_stepcoop: 3,
        w_step: 30,
        w_drain: 6,
        w_newcall: 22,
        w_reply: 10,
        w_dup: 1,
        w_unknown: 1,
        w_dropcall: 16,
        w_clone: 1,
        w_drophandle: 1,
        w_advance: 3,
        w_advance_to: 4,
        w_budget: 8,
        w_fault: 1,
        w_peerclose: 0,
        w_closepending: 0,
        max_ops: 70,
        dl_far: 6,
        dl_short: 3,
        dl_past: 1,
        yields: true,
        max_in_flight: 1..=4,
        buffer: 1..=3,
        cap: 1..=3,
        independent: None,
        ..CProfile::default()
    }
}

pub fn check(sc: &CScenario) -> CaseResult {
    let mut ops = sc.ops.clone();
    // closing phase: dispatch driven, transport writable
    ops.push(COp::Drain);
    ops.push(COp::Budget { n: 255 });
    ops.push(COp::Drain);
    let run = run_client(&sc.cfg, &ops);
    let v = CView::new(&run);
    let fail = |msg: String| -> CaseResult {
        Err(Violation::new(msg).with_detail(json!({"history_tail": v.tail(80)})))
    };
    if run.livelock {
        return fail("livelock".into());
    }
    if let Some(p) = v.first_panic() {
        return fail(format!("panic: {p}"));
    }
    // wire automaton per id
    #[derive(Clone, Copy, PartialEq)]
    enum St {
        Requested(bool), // send ok?
        Cancelled,
        /// the cancellation was handed to the transport, which rejected it: nothing reached the peer
        CancelFailed,
    }
    let mut st: BTreeMap<u64, St> = BTreeMap::new();
    for s in &v.sends {
        match &s.msg {
            Msg::Request { id, .. } => {
                if st.insert(*id, St::Requested(s.ok)).is_some() {
                    return fail(format!("request id {id} transmitted twice"));
                }
            }
            Msg::Cancel { id, .. } => match st.get(id) {
                None => return fail(format!("seq {}: Cancel({id}) transmitted although no request with that id was ever written", s.seq)),
                Some(St::Cancelled) => return fail(format!("seq {}: Cancel({id}) transmitted twice", s.seq)),
                Some(St::Requested(false)) => {
                    return fail(format!("seq {}: Cancel({id}) transmitted although writing request {id} had failed", s.seq))
                }
                Some(St::Requested(true)) | Some(St::CancelFailed) => {
                    st.insert(*id, if s.ok { St::Cancelled } else { St::CancelFailed });
                }
            },
            _ => {}
        }
    }
    let id_to_call: BTreeMap<u64, usize> = v.wire.iter().map(|(c, w)| (w.0, *c)).collect();
    // never for a call that resolved normally; only for abandoned calls
    for (id, s) in &st {
        if *s == St::Cancelled {
            let Some(&call) = id_to_call.get(id) else { continue };
            match v.outcome(call) {
                Some(Outcome::Ok(_)) | Some(Outcome::Server(..)) => {
                    return fail(format!("Cancel({id}) was transmitted for call {call}, which resolved normally with {:?}", v.outcome(call)));
                }
                _ => {}
            }
            if run.states[call].dropped.is_none() {
                return fail(format!("Cancel({id}) was transmitted for call {call}, which was never abandoned"));
            }
            // the cancel must come after the abandonment
            let cseq = v.cancels_for(*id)[0].seq;
            if cseq < run.states[call].dropped.unwrap().0 {
                return fail(format!("Cancel({id}) was transmitted before call {call} was abandoned"));
            }
        }
    }
    // final obligation
    let final_t = run.recs.last().map(|r| r.t_ns).unwrap_or(0) as i128;
    let dispatch_over = v.dispatch_end_seq.is_some();
    let conn_failed = run.recs.iter().any(|r| {
        matches!(&r.ev, Ev::Io { tr: 0, res: IoRes::ItemErr | IoRes::End, op: IoOp::Next, .. })
            || matches!(&r.ev, Ev::Io { tr: 0, res: IoRes::Err, op: IoOp::Ready | IoOp::Flush | IoOp::Close, .. })
            || matches!(&r.ev, Ev::Io { tr: 0, res: IoRes::Err, op: IoOp::Send, sent: Some(Msg::Cancel { .. }), .. })
    });
    // the peer ended or broke the read side: the dispatch stops without owing anything more
    let inbound_over = run.recs.iter().any(|r| matches!(&r.ev, Ev::Io { tr: 0, res: IoRes::ItemErr | IoRes::End, op: IoOp::Next, .. }));
    let mut classes: BTreeSet<&'static str> = BTreeSet::new();
    let mut nontrivial = false;
    for c in &run.calls {
        let call = c.call;
        let Some((dseq, _dt)) = run.states[call].dropped else { continue };
        if run.states[call].resolved.is_some() {
            continue;
        }
        classes.insert("abandoned");
        match v.wire.get(&call) {
            None => {
                classes.insert("abandoned:never-transmitted");
            }
            Some((id, sseq, ok, _)) => {
                let cancelled = st.get(id) == Some(&St::Cancelled);
                if *sseq > dseq && cancelled {
                    classes.insert("abandoned:transmitted-after-drop-then-cancelled");
                }
                if *sseq > dseq && !cancelled && *ok && !dispatch_over && !conn_failed {
                    // transmitted after the caller had gone, and never cancelled: only excusable by response/expiry
                }
                if !cancelled {
                    let responded = v.responses_for(*id).iter().any(|n| n.seq > *sseq);
                    let expired = final_t >= c.deadline_ns;
                    let write_failed = !*ok;
                    if responded {
                        classes.insert("excused:response-processed");
                    } else if expired {
                        classes.insert("excused:deadline");
                    } else if write_failed {
                        classes.insert("excused:write-failed");
                    } else if matches!(run.dispatch_end, Some(Err(_))) || (dispatch_over && inbound_over) {
                        // "connection lost" = the dispatch ended with an error, or the peer ended the read side.
                        // A transport failure that the dispatch swallows, or an orderly shutdown after the last
                        // handle was dropped (which must drain queued cancellations first, C10), is no excuse
                        // (seeded change C03-failed-cancel-write-swallowed)
                        classes.insert("excused:connection-lost");
                        if conn_failed {
                            classes.insert("excused:connection-lost-after-transport-failure");
                        }
                    } else {
                        return fail(format!(
                            "call {call} was abandoned (seq {dseq}); its request (id {id}) is on the wire (seq {sseq}) but no Cancel({id}) was transmitted although the dispatch ran to quiescence with a writable transport, no response for it was processed, its deadline ({}ns) has not passed (t={final_t}ns), its write succeeded and the connection is up (dispatch still running; a transport operation failed earlier: {conn_failed})",
                            c.deadline_ns
                        ));
                    }
                } else {
                    classes.insert("abandoned:cancelled");
                }
            }
        }
    }
    // non-triviality: yields used, or abandonment while queued/blocked, or racing a delivered reply
    for r in &run.recs {
        if let Ev::Yield { .. } = &r.ev {
            classes.insert("yield-inside-drop");
            nontrivial = true;
        }
    }
    for c in &run.calls {
        if let Some((dseq, _)) = run.states[c.call].dropped {
            if run.states[c.call].resolved.is_some() {
                continue;
            }
            let transmitted_before = v.wire.get(&c.call).map_or(false, |w| w.1 < dseq);
            let polled_before = run.recs.iter().any(|r| r.seq < dseq && matches!(&r.ev, Ev::PollStart{task, ..} if *task == c.task));
            if polled_before && !transmitted_before {
                classes.insert("abandoned-while-queued");
                nontrivial = true;
            }
            if let Some((id, sseq, _, _)) = v.wire.get(&c.call) {
                // reply delivered (Env Reply before drop) but read after the drop
                if v.responses_for(*id).iter().any(|n| n.seq > dseq && n.seq > *sseq) {
                    classes.insert("abandoned-racing-reply");
                    nontrivial = true;
                }
            }
        }
    }
    Ok(CaseOk { nontrivial, classes: classes.into_iter().collect(), excluded_known: run.excluded_known })
}

impl Prop for C03 {
    type Scenario = CScenario;
    fn id(&self) -> &'static str {
        "C03"
    }
    fn rule(&self) -> String {
        "Scenario = client config (max_in_flight 1-4, buffer 1-3, cap 1-3, both readiness models) + up to 70 generated ops with calls abandoned at every stage \
         (never polled, blocked on the request buffer, queued behind a full in-flight table or a blocked transport, transmitted, reply delivered-but-unread, reply read) and, via hook H1, \
         0-3 scheduler steps run at each of the three yield points inside the call guard's drop; closing phase drains with a writable transport. \
         Oracle over the sink log: per id Request then at most one Cancel, Cancel only after a successfully written Request and only for an abandoned call, never for a call that resolved with a value; \
         at the end every abandoned call has no Request on the wire, or a Cancel after it, or a witness that it had ended for the dispatcher (response handed over, deadline passed, write failed, connection lost). \
         Non-trivial = an abandonment while queued, or with a yield inside the drop, or racing a delivered reply; distinct = distinct scenario JSON."
            .into()
    }
    fn assumptions(&self) -> Vec<String> {
        vec!["interleavings inside the synchronous drop are limited to the three H1 yield points".into()]
    }
    fn work(&self, tier: Tier) -> Work {
        match tier {
            Tier::Quick => Work { cases_per_worker: 12500, workers: 8 },
            Tier::Thorough => Work { cases_per_worker: 200000, workers: 16 },
        }
    }
    fn strategy(&self, _tier: Tier) -> BoxedStrategy<CScenario> {
        scenario_strategy(&profile())
    }
    fn run_case(&self, sc: &CScenario) -> CaseResult {
        check(sc)
    }
}
