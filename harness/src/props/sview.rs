//! Read-only view over a server run: per-request-instance timeline and a reference model of the
//! channel's in-flight set derived only from wire events, environment actions and virtual time.

use crate::engines::server::{ServerRun, SBODY_BASE};
use crate::sim::hist::{Ev, IoOp, IoRes, Msg, Probes};
use std::collections::BTreeMap;

pub const GRAN_NS: i128 = 2_000_000;

#[derive(Clone, Debug, PartialEq)]
pub enum End {
    Responded { seq: usize, t_ns: u64, result: Result<u64, (String, String)>, write_ok: bool },
    CancelRead { seq: usize, t_ns: u64 },
    InternalCancel { seq: usize, t_ns: u64 },
    Expired { seq: usize, t_ns: u64 },
    ChannelDropped { seq: usize },
}

impl End {
    pub fn seq(&self) -> usize {
        match self {
            End::Responded { seq, .. }
            | End::CancelRead { seq, .. }
            | End::InternalCancel { seq, .. }
            | End::Expired { seq, .. }
            | End::ChannelDropped { seq } => *seq,
        }
    }
}

#[derive(Clone, Debug, Default)]
pub struct InstTl {
    pub read: Option<(usize, u64)>,
    pub dup_ignored: bool,
    /// arrived with the id of a request whose deadline had just passed: either outcome (ignored / accepted) is allowed
    pub ambiguous_dup: bool,
    /// number of requests the model certainly/possibly had tracked just before this one was read
    pub lower_before: usize,
    pub upper_before: usize,
    pub yielded: Vec<usize>,
    pub started: Vec<usize>,
    pub polls: Vec<(usize, u64)>,
    pub completed: Option<(usize, u64, Result<u64, String>)>,
    pub handler_dropped: Option<(usize, u64)>,
    pub exec_returned: Option<usize>,
    pub env_dropped: Option<(usize, u64)>, // handler task / held request dropped by the application
    pub end: Option<End>,
    pub throttled: bool,
}

#[derive(Clone, Debug)]
pub struct QInfo {
    pub seq: usize,
    pub t_ns: u64,
    pub probes: Probes,
    pub lower: usize,
    pub upper: usize,
}

pub struct SView<'a> {
    pub run: &'a ServerRun,
    pub tl: Vec<InstTl>,
    pub quiescent: Vec<QInfo>,
    /// problems found while building the model (responses for untracked ids etc.)
    pub model_violations: Vec<String>,
    pub consumer_polls: Vec<(usize, usize, u64)>, // (start seq, end seq, t)
    pub stream_end_seq: Option<usize>,
    pub stream_err: Option<(usize, String)>,
    pub inbound_closed_seq: Option<usize>,
    pub channel_dropped_seq: Option<usize>,
    pub adaptor_yields: usize,
    /// some id's history is ambiguous (expiry / internal cancel racing a reuse of the id): count-based checks are skipped
    pub tainted_any: bool,
    /// responses transmitted more than a timer granule after the request's deadline (and read time)
    pub late_responses: Vec<String>,
}

fn parse_inst(text: &str, key: &str) -> Option<usize> {
    text.split_whitespace().find_map(|w| w.strip_prefix(key)).and_then(|v| v.parse().ok())
}

impl<'a> SView<'a> {
    pub fn new(run: &'a ServerRun) -> Self {
        let n = run.insts.len();
        let mut tl: Vec<InstTl> = vec![InstTl::default(); n];
        let mut tracked: BTreeMap<u64, usize> = BTreeMap::new();
        // internal cancellations (handler / unexecuted request dropped by the application) queued and not
        // yet certainly processed, oldest first. The channel processes one per loop iteration, before
        // that iteration's transport read; it has certainly emptied the queue only when its last read of
        // a poll found nothing (the loop ends only when all its sources are idle).
        let mut pending_internal: std::collections::VecDeque<usize> = Default::default();
        let mut last_next_idle = false;
        // the current consumer poll runs on a nearly exhausted cooperative budget: the channel's queues may
        // answer Pending although they hold items, so nothing is certain about what it processed
        let mut in_coop_poll = false;
        // ids for which the order of an expiry / internal cancellation and a reuse of the id is not
        // determined by the history: every instance with such an id is exempt from per-instance checks
        let mut tainted: std::collections::BTreeSet<u64> = Default::default();
        // tainted id -> latest deadline among the instances that may be the tracked one
        let mut amb_deadline: BTreeMap<u64, i128> = BTreeMap::new();
        let mut quiescent = vec![];
        let mut model_violations = vec![];
        let mut late_responses = vec![];
        let mut consumer_polls = vec![];
        let mut cur_consumer_start: Option<usize> = None;
        let mut stream_end_seq = None;
        let mut stream_err = None;
        let mut inbound_closed_seq = None;
        let mut channel_dropped_seq = None;
        let throttle_detail = "server throttled the request.";
        let consumer = 0usize;

        let bounds = |tracked: &BTreeMap<u64, usize>, tl: &Vec<InstTl>, now: i128| -> (usize, usize) {
            let mut lower = 0;
            let mut upper = 0;
            for (_, &i) in tracked.iter() {
                let d = run.insts[i].deadline_ns;
                // certainly tracked: before its deadline and not an ambiguous duplicate
                if now < d && !tl[i].ambiguous_dup {
                    lower += 1;
                }
                // still in the model's set => possibly tracked
                upper += 1;
            }
            (lower, upper)
        };

        for r in &run.recs {
            let now = r.t_ns as i128;
            match &r.ev {
                Ev::PollStart { task, coop } if *task == consumer => {
                    cur_consumer_start = Some(r.seq);
                    in_coop_poll = *coop;
                }
                Ev::PollEnd { task, woken, .. } if *task == consumer => {
                    // a poll that ended with the task already woken again (a tokio resource ran out of cooperative
                    // budget mid-poll) proves nothing about what the channel has processed: decide at a later one
                    let settled = !*woken;
                    let pstart = cur_consumer_start.take();
                    if let Some(s) = pstart {
                        consumer_polls.push((s, r.seq, r.t_ns));
                    }
                    // the poll's last transport read found nothing: every queued internal cancellation has been processed
                    if settled && (last_next_idle || inbound_closed_seq.is_some()) {
                        for i in pending_internal.drain(..) {
                            let id = run.insts[i].id;
                            if tracked.get(&id) == Some(&i) {
                                tracked.remove(&id);
                                if tl[i].end.is_none() {
                                    tl[i].end = Some(End::InternalCancel { seq: pstart.unwrap_or(r.seq), t_ns: r.t_ns });
                                }
                            }
                        }
                    }
                    last_next_idle = false;
                    let exp: Vec<(u64, usize)> = tracked
                        .iter()
                        .filter(|_| settled)
                        .filter(|(id, &i)| {
                            let d = run.insts[i].deadline_ns.max(amb_deadline.get(*id).copied().unwrap_or(i128::MIN));
                            let rt = tl[i].read.map(|x| x.1 as i128).unwrap_or(0);
                            now >= d.max(rt) + GRAN_NS
                        })
                        .map(|(k, v)| (*k, *v))
                        .collect();
                    for (id, i) in exp {
                        tracked.remove(&id);
                        if tl[i].end.is_none() {
                            tl[i].end = Some(End::Expired { seq: r.seq, t_ns: r.t_ns });
                        }
                    }
                }
                Ev::Io { tr: 1, op: IoOp::Next, res, .. } => {
                    last_next_idle = matches!(res, IoRes::Pending | IoRes::End);
                    match res {
                    IoRes::Item(Msg::Request { id, body, .. }) => {
                        let i = (*body - SBODY_BASE) as usize;
                        if i < n {
                            tl[i].read = Some((r.seq, r.t_ns));
                            // internal cancellations (dropped handlers / unexecuted requests) queued before
                            // this read are processed one per loop iteration of the channel, so whether a
                            // given one has been processed before this read is not determined: such
                            // instances count toward the upper bound only.
                            let (lo, up) = bounds(&tracked, &tl, now);
                            let pend_lo = tracked
                                .values()
                                .filter(|x| pending_internal.contains(x) && now < run.insts[**x].deadline_ns && !tl[**x].ambiguous_dup)
                                .count();
                            tl[i].lower_before = lo - pend_lo;
                            tl[i].upper_before = up;
                            if let Some(&other) = tracked.get(id) {
                                // possibly a duplicate of an in-flight id -- unless that one may have expired
                                // or may already have been cancelled internally
                                let d = run.insts[other].deadline_ns;
                                if now >= d || pending_internal.contains(&other) || tl[other].ambiguous_dup {
                                    // ambiguous: the old one may already have expired; treat the new one as tracked
                                    // and end the old one as expired
                                    if tl[other].end.is_none() {
                                        tl[other].end = Some(End::Expired { seq: r.seq, t_ns: r.t_ns });
                                    }
                                    let dmax = d.max(run.insts[i].deadline_ns).max(amb_deadline.get(id).copied().unwrap_or(i128::MIN));
                                    amb_deadline.insert(*id, dmax);
                                    tracked.insert(*id, i);
                                    tl[i].dup_ignored = false;
                                    tl[i].ambiguous_dup = true;
                                    tainted.insert(*id);
                                } else {
                                    tl[i].dup_ignored = true;
                                }
                            } else {
                                tracked.insert(*id, i);
                                // the id was used before by an instance that was read and ended without being
                                // answered (expired, cancelled, dropped by the application): reuse after anything
                                // but completion is outside every listed quantifier, and a guard left over from
                                // the old instance cancels *by id*, so nothing about this id is determined
                                let reused_unanswered = (0..n).any(|j| {
                                    j != i
                                        && run.insts[j].id == *id
                                        && tl[j].read.is_some()
                                        && !tl[j].dup_ignored
                                        && !matches!(tl[j].end, Some(End::Responded { .. }))
                                });
                                if reused_unanswered {
                                    tainted.insert(*id);
                                }
                                if tainted.contains(id) {
                                    // an earlier instance with this id had an undetermined fate (and its dropped
                                    // handler cancels by id): nothing about this one is certain either
                                    tl[i].ambiguous_dup = true;
                                }
                            }
                        }
                    }
                    IoRes::Item(Msg::Cancel { id, .. }) => {
                        if let Some(i) = tracked.remove(id) {
                            if tl[i].end.is_none() {
                                tl[i].end = Some(End::CancelRead { seq: r.seq, t_ns: r.t_ns });
                            }
                        }
                    }
                    IoRes::End => inbound_closed_seq = Some(r.seq),
                    IoRes::ItemErr => {}
                    _ => {}
                    }
                    // this loop iteration certainly processed the oldest queued internal cancellation (before
                    // the read; for the bounds of the request just read it stays uncertain, which is the
                    // conservative side)
                    if in_coop_poll {
                        // no certainty in a budget-limited poll
                    } else if let Some(i) = pending_internal.pop_front() {
                        let id = run.insts[i].id;
                        if tracked.get(&id) == Some(&i) {
                            tracked.remove(&id);
                            if tl[i].end.is_none() {
                                tl[i].end = Some(End::InternalCancel { seq: r.seq, t_ns: r.t_ns });
                            }
                        }
                    }
                }
                Ev::Io { tr: 1, op: IoOp::Send, sent: Some(Msg::Response { id, result }), res, .. } => {
                    let write_ok = matches!(res, IoRes::Ok);
                    match tracked.remove(id) {
                        Some(i) => {
                            let thr = matches!(result, Err((k, d)) if k == "WouldBlock" && d == throttle_detail);
                            if thr && tl[i].yielded.is_empty() && tl[i].started.is_empty() {
                                tl[i].throttled = true;
                            }
                            if tl[i].end.is_none() {
                                let d = run.insts[i].deadline_ns;
                                let rt = tl[i].read.map(|x| x.1 as i128).unwrap_or(0);
                                if !thr && !tl[i].ambiguous_dup && !tainted.contains(id) && now >= d.max(rt) + GRAN_NS {
                                    late_responses.push(format!(
                                        "seq {}: Response for request instance {i} (id {id}) transmitted at t={now}ns, more than a timer granule after its deadline {d}ns (read at {rt}ns)",
                                        r.seq
                                    ));
                                }
                                tl[i].end = Some(End::Responded { seq: r.seq, t_ns: r.t_ns, result: result.clone(), write_ok });
                            } else if !tainted.contains(id) {
                                model_violations.push(format!(
                                    "seq {}: Response for id {id} written although request instance {i} had already ended ({:?})",
                                    r.seq, tl[i].end
                                ));
                            }
                        }
                        None if tainted.contains(id) => {}
                        None => {
                            model_violations.push(format!(
                                "seq {}: Response{{id {id}, {result:?}}} written but no request with that id is read-and-unanswered on this channel (never read, already answered, cancelled or expired)",
                                r.seq
                            ));
                        }
                    }
                }
                Ev::ReqYielded { inst, .. } => tl[*inst].yielded.push(r.seq),
                Ev::HandlerStarted { inst } => tl[*inst].started.push(r.seq),
                Ev::HandlerPolled { inst } => tl[*inst].polls.push((r.seq, r.t_ns)),
                Ev::HandlerCompleted { inst, result } => tl[*inst].completed = Some((r.seq, r.t_ns, result.clone())),
                Ev::HandlerDropped { inst, .. } => tl[*inst].handler_dropped = Some((r.seq, r.t_ns)),
                Ev::ExecReturned { inst } => tl[*inst].exec_returned = Some(r.seq),
                Ev::Note { text } => {
                    if text.starts_with("HandlerTaskDropped") || text.starts_with("HeldDropped") {
                        if let Some(i) = parse_inst(text, "inst=") {
                            tl[i].env_dropped = Some((r.seq, r.t_ns));
                            pending_internal.push_back(i);
                        }
                    }
                }
                Ev::ReqStreamEnd { .. } => stream_end_seq = Some(r.seq),
                Ev::ReqStreamErr { err, .. } => stream_err = Some((r.seq, err.clone())),
                Ev::ChannelDropped { .. } => {
                    channel_dropped_seq = Some(r.seq);
                    for (_, i) in std::mem::take(&mut tracked) {
                        if tl[i].end.is_none() {
                            tl[i].end = Some(End::ChannelDropped { seq: r.seq });
                        }
                    }
                }
                Ev::Quiescent { probes } => {
                    let (lo, up) = bounds(&tracked, &tl, now);
                    quiescent.push(QInfo { seq: r.seq, t_ns: r.t_ns, probes: probes.clone(), lower: lo, upper: up });
                }
                _ => {}
            }
        }
        for (i, inst) in run.insts.iter().enumerate() {
            if tainted.contains(&inst.id) {
                tl[i].ambiguous_dup = true;
            }
        }
        if std::env::var("VERIF_DUMP").is_ok() {
            for r in &run.recs {
                eprintln!("{} {} {}", r.seq, r.t_ns, serde_json::to_string(&r.ev).unwrap_or_default());
            }
        }
        let adaptor_yields = run
            .recs
            .iter()
            .filter(|r| matches!(&r.ev, Ev::Note { text } if text == "AdaptorYield"))
            .count();
        SView {
            run,
            tl,
            quiescent,
            model_violations,
            consumer_polls,
            stream_end_seq,
            stream_err,
            inbound_closed_seq,
            channel_dropped_seq,
            adaptor_yields,
            tainted_any: !tainted.is_empty(),
            late_responses,
        }
    }

    pub fn tail(&self, n: usize) -> serde_json::Value {
        let n = if std::env::var("VERIF_FULL").is_ok() { usize::MAX } else { n };
        let r = &self.run.recs;
        serde_json::to_value(&r[r.len().saturating_sub(n)..]).unwrap_or_default()
    }

    pub fn first_panic(&self) -> Option<String> {
        self.run.panics.first().map(|(t, m)| format!("task {t}: {m}"))
    }

    /// A handler dropped unfinished must have a stated cause by then: cancel read, deadline reached,
    /// dropped by the application, channel dropped.
    pub fn spurious_abort(&self) -> Option<String> {
        for (i, t) in self.tl.iter().enumerate() {
            let Some((dseq, dt)) = t.handler_dropped else { continue };
            if t.ambiguous_dup {
                continue;
            }
            let d = self.run.insts[i].deadline_ns;
            let cancel = matches!(&t.end, Some(End::CancelRead { seq, .. }) if *seq < dseq);
            let env = t.env_dropped.map_or(false, |e| e.0 < dseq);
            let chan = self.channel_dropped_seq.map_or(false, |s| s <= dseq);
            let expired = (dt as i128) >= d;
            let stream_over = self.stream_end_seq.map_or(false, |s| s <= dseq);
            if !(cancel || env || chan || expired || stream_over) {
                return Some(format!(
                    "handler of request instance {i} (id {}) was aborted at t={dt}ns (seq {dseq}) before its deadline {d}ns without a cancellation, application drop or channel drop",
                    self.run.insts[i].id
                ));
            }
        }
        None
    }
}
