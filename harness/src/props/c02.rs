//! C02 — Every call terminates; no wake-up is lost.

use super::cgen::{scenario_strategy, CProfile, CScenario};
use super::cview::CView;
use crate::engines::client::{run_client, COp};
use crate::sim::exec::TaskState;
use crate::sim::hist::{Ev, Msg};
use crate::sim::runner::{CaseOk, CaseResult, Prop, Tier, Violation, Work};
use proptest::prelude::*;
use serde_json::json;
use std::collections::BTreeSet;

pub struct C02;

pub fn profile() -> CProfile {
    CProfile {
        w_stepcoop: 3,
        w_step: 34,
        w_drain: 10,
        w_newcall: 22,
        w_reply: 12,
        w_dup: 1,
        w_unknown: 1,
        w_dropcall: 5,
        w_clone: 1,
        w_drophandle: 2,
        w_advance: 5,
        w_advance_to: 3,
        w_budget: 10,
        w_fault: 2,
        w_peerclose: 1,
        w_closepending: 1,
        max_ops: 80,
        dl_far: 5,
        dl_short: 4,
        dl_past: 1,
        max_in_flight: 1..=3,
        buffer: 1..=2,
        cap: 1..=2,
        independent: None,
        ..CProfile::default()
    }
}

const GRAN_NS: i128 = 2_000_000; // two timer granules (DelayQueue + tokio wheel each round up to 1 ms)

pub fn check(sc: &CScenario) -> CaseResult {
    let mut ops = sc.ops.clone();
    ops.push(COp::Drain);
    ops.push(COp::Budget { n: 255 });
    ops.push(COp::Drain);
    ops.push(COp::AdvancePastDeadlines);
    ops.push(COp::Drain);
    ops.push(COp::DropAllHandles);
    ops.push(COp::Drain);
    let run = run_client(&sc.cfg, &ops);
    let v = CView::new(&run);
    let fail = |msg: String| -> CaseResult {
        Err(Violation::new(msg).with_detail(json!({"history_tail": v.tail(80)})))
    };
    if run.livelock {
        return fail("livelock: 20000 scheduler steps without reaching quiescence".into());
    }
    if let Some(p) = v.first_panic() {
        if p.contains("SIM-SPIN") {
            return fail(format!("dispatch busy-loops instead of waiting to be woken: {p}"));
        }
        return fail(format!("panic: {p}"));
    }
    let max = sc.cfg.max_in_flight;
    let mut classes: BTreeSet<&'static str> = BTreeSet::new();
    let mut waited = false;

    // per-call first poll seq
    let mut first_poll: Vec<Option<usize>> = vec![None; run.calls.len()];
    for r in &run.recs {
        if let Ev::PollStart { task, .. } = &r.ev {
            if let Some(c) = run.calls.iter().find(|c| c.task == *task) {
                if first_poll[c.call].is_none() {
                    first_poll[c.call] = Some(r.seq);
                }
            }
        }
    }

    for r in &run.recs {
        let Ev::Quiescent { probes } = &r.ev else { continue };
        let q = r.seq;
        let now = r.t_ns as i128;
        let dispatch_ended = v.dispatch_end_seq.map_or(false, |s| s < q);
        let live = |c: usize| -> bool {
            run.states[c].resolved.as_ref().map_or(true, |x| x.0 > q)
                && run.states[c].dropped.map_or(true, |x| x.0 > q)
                && run.calls[c].created_seq < q
        };
        if dispatch_ended || !probes.dispatch_alive {
            // R4: nothing may hang once the dispatch is gone
            for c in 0..run.calls.len() {
                if live(c) {
                    return fail(format!(
                        "at quiescence (seq {q}) the dispatch has ended but call {c} is still pending: nothing is left that could wake it"
                    ));
                }
            }
            continue;
        }
        // R0: a live dispatch leaves nothing unread
        if probes.inbound_len > 0 {
            return fail(format!(
                "at quiescence (seq {q}) {} inbound item(s) are unread although the dispatch is alive and idle: the arrival did not wake it",
                probes.inbound_len
            ));
        }
        let mut upper_in_flight = 0usize;
        for c in 0..run.calls.len() {
            let Some((id, sseq, ok, sent_ns)) = v.wire.get(&c).copied() else { continue };
            if sseq > q || !ok {
                continue;
            }
            let responded = v.responses_for(id).iter().any(|n| n.seq > sseq && n.seq < q);
            let cancelled = v.cancels_for(id).iter().any(|s| s.seq < q);
            // the timer is armed at transmission: a request written after its deadline expires one granule after the write
            let d = run.calls[c].deadline_ns.max(sent_ns as i128);
            if !responded && !cancelled && now < d + GRAN_NS {
                upper_in_flight += 1;
            }
            if live(c) {
                // R1: reply handed over => resolved
                if responded {
                    return fail(format!(
                        "at quiescence (seq {q}) call {c} (id {id}) is still pending although a response for it was handed to the dispatch: the completion did not wake the caller"
                    ));
                }
                // R2: deadline passed => resolved
                if now >= d + GRAN_NS {
                    return fail(format!(
                        "at quiescence (seq {q}, t={now}ns) call {c} (id {id}) is still pending although its deadline {d}ns passed more than a timer granule ago: the expiry did not wake the dispatch or the caller"
                    ));
                }
            }
        }
        let blocked = probes.budget_zero && probes.buffered >= sc.cfg.cap;
        let untransmitted: Vec<usize> = (0..run.calls.len())
            .filter(|&c| live(c) && first_poll[c].map_or(false, |p| p < q) && v.wire.get(&c).map_or(true, |w| w.1 > q))
            .collect();
        if !untransmitted.is_empty() {
            if blocked {
                classes.insert("waited:transport-not-ready");
                waited = true;
            } else if upper_in_flight >= max {
                classes.insert("waited:in-flight-capacity");
                waited = true;
            } else {
                return fail(format!(
                    "at quiescence (seq {q}) calls {untransmitted:?} have been issued but not transmitted although the transport accepts writes and at most {upper_in_flight} of {max} in-flight slots are taken: a capacity/writability/new-request wake-up was lost"
                ));
            }
            if untransmitted.len() > sc.cfg.buffer {
                classes.insert("waited:request-buffer-full");
            }
        }
        // R5: shutdown
        let handles_gone = {
            let env_gone = run.recs.iter().filter(|x| x.seq < q).fold((1i64, 0i64), |acc, x| match &x.ev {
                Ev::HandleDropped { .. } => (acc.0, acc.1 + 1),
                Ev::Env { op } if op.starts_with("CloneHandle") => acc, // counted below
                _ => acc,
            });
            let _ = env_gone;
            false
        };
        let _ = handles_gone;
    }

    // final state: everything resolved, dispatch done
    for c in 0..run.calls.len() {
        if run.states[c].resolved.is_none() && run.states[c].dropped.is_none() {
            return fail(format!(
                "call {c} never resolved although the transport was made writable, time advanced past every deadline, every handle dropped and the system driven to quiescence"
            ));
        }
    }
    if run.dispatch_state == TaskState::Alive {
        let cancels_pending = run.transport_blocked_at_end;
        if !cancels_pending {
            return fail("the dispatch is still running after all calls ended and all handles were dropped (shutdown wake-up lost)".into());
        }
    }
    if run.recs.iter().any(|r| matches!(&r.ev, Ev::Io { op: crate::sim::hist::IoOp::Next, res: crate::sim::hist::IoRes::ItemErr, .. }))
        || run.recs.iter().any(|r| matches!(&r.ev, Ev::Io { res: crate::sim::hist::IoRes::Err, .. }))
    {
        classes.insert("fault-fired");
    }
    if run.states.iter().any(|s| matches!(&s.resolved, Some((_, _, crate::sim::hist::Outcome::Deadline)))) {
        classes.insert("expired");
    }
    if v.sends.iter().any(|s| matches!(s.msg, Msg::Cancel { .. })) {
        classes.insert("cancel-written");
    }
    Ok(CaseOk { nontrivial: waited, classes: classes.into_iter().collect(), excluded_known: run.excluded_known })
}

impl Prop for C02 {
    type Scenario = CScenario;
    fn id(&self) -> &'static str {
        "C02"
    }
    fn rule(&self) -> String {
        "Scenario = client config (max_in_flight 1-3, buffer 1-2, transport cap 1-2, both readiness models) + up to 80 generated ops under the strict \
         wake-only scheduler (a task is polled only if its waker fired): calls with finite deadlines, generated scheduling steps, replies, abandonments, clock advances \
         (incl. landing on deadline+-1ms), write budget blocked/restored, faults on the k-th transport op, peer close, handle drops; then a closing phase \
         (drain; make writable; drain; advance past all deadlines; drain; drop all handles; drain). Oracle: at every quiescence the enabler rules hold \
         (no unread inbound with a live dispatch; reply handed over => caller resolved; deadline passed by >2ms => resolved; issued-but-untransmitted calls only while \
         the transport is not ready or the in-flight table is provably full; dispatch gone => no call pending) and at the end every call resolved and the dispatch finished. \
         Non-trivial = some quiescence had calls legitimately waiting (transport not ready / in-flight capacity) that were released later; distinct = distinct scenario JSON."
            .into()
    }
    fn assumptions(&self) -> Vec<String> {
        vec![
            "liveness decided in bounded form: resolved at quiescence of a closed finite scenario".into(),
            "timer granularity 2 ms (DelayQueue and tokio's wheel each round up to 1 ms)".into(),
        ]
    }
    fn work(&self, tier: Tier) -> Work {
        match tier {
            Tier::Quick => Work { cases_per_worker: 7500, workers: 8 },
            Tier::Thorough => Work { cases_per_worker: 200000, workers: 16 },
        }
    }
    fn strategy(&self, _tier: Tier) -> BoxedStrategy<CScenario> {
        scenario_strategy(&profile())
    }
    fn run_case(&self, sc: &CScenario) -> CaseResult {
        check(sc)
    }
}
