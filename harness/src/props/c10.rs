//! C10 — Shutdown is orderly: queued work is drained first (client part; server part in c10s).

use super::cgen::{scenario_strategy, CProfile, CScenario};
use super::cview::CView;
use crate::engines::client::{run_client, COp};
use crate::sim::hist::{Ev, IoOp, IoRes, Msg, Outcome};
use crate::sim::runner::{CaseOk, CaseResult, Violation};
use serde_json::json;
use std::collections::BTreeSet;

pub fn client_profile() -> CProfile {
    CProfile {
        w_step: 30,
        w_stepcoop: 3,
        w_drain: 6,
        w_newcall: 24,
        w_reply: 10,
        w_dup: 1,
        w_unknown: 1,
        w_dropcall: 12,
        w_clone: 2,
        w_drophandle: 3,
        w_advance: 2,
        w_advance_to: 1,
        w_budget: 8,
        w_fault: 0,
        w_peerclose: 1,
        w_closepending: 3,
        max_ops: 60,
        dl_far: 10,
        dl_short: 1,
        dl_past: 0,
        yields: true,
        max_in_flight: 1..=4,
        buffer: 1..=3,
        cap: 1..=3,
        independent: None,
        ..CProfile::default()
    }
}

pub fn check_client(sc: &CScenario) -> CaseResult {
    check_client_opt(sc, None)
}

/// `close_budget`: poll the dispatch for the first time after the last handle is gone with only that
/// many units of tokio's cooperative budget left (the end of a long poll under load), so that one of
/// its queues answers Pending although it still holds items.
pub fn check_client_opt(sc: &CScenario, close_budget: Option<u8>) -> CaseResult {
    let mut ops = sc.ops.clone();
    // shutdown: abandon whatever is left, drop every handle, (transport may still be blocked), then make it writable
    ops.push(COp::DropAllCalls);
    ops.push(COp::DropAllHandles);
    match close_budget {
        Some(b) => ops.push(COp::StepCoop { sel: 0, budget: b }),
        None => ops.push(COp::Step { sel: 0 }),
    }
    ops.push(COp::Budget { n: 255 });
    ops.push(COp::Drain);
    let run = run_client(&sc.cfg, &ops);
    let v = CView::new(&run);
    let fail = |msg: String| -> CaseResult {
        Err(Violation::new(msg).with_detail(json!({"history_tail": v.tail(80)})))
    };
    if let Some(p) = v.first_panic() {
        return fail(format!("panic: {p}"));
    }
    if run.livelock {
        return fail("livelock".into());
    }
    let eof = run.recs.iter().find(|r| matches!(&r.ev, Ev::Io { tr: 0, op: IoOp::Next, res: IoRes::End, .. })).map(|r| r.seq);
    let peer_closed_seq = run.recs.iter().find(|r| matches!(&r.ev, Ev::Env { op } if op == "PeerClose")).map(|r| r.seq);
    let first_close = run.recs.iter().find(|r| matches!(&r.ev, Ev::Io { tr: 0, op: IoOp::Close, .. })).map(|r| r.seq);
    let mut classes: BTreeSet<&'static str> = BTreeSet::new();
    let mut nontrivial = false;

    // no write after close was first called
    if let Some(cs) = first_close {
        if let Some(s) = v.sends.iter().find(|s| s.seq > cs) {
            return fail(format!("start_send({:?}) at seq {} after poll_close was first called at seq {cs}", s.msg, s.seq));
        }
    }
    match run.dispatch_end.as_ref() {
        Some(Err(e)) => return fail(format!("dispatch ended with error {e} in a fault-free shutdown")),
        None => return fail("the dispatch has not completed after all calls were abandoned, all handles dropped and the transport made writable".into()),
        Some(Ok(())) => {}
    }
    if let Some(e) = eof {
        // peer-close path: dispatch stops promptly, outstanding calls fail instead of hanging
        classes.insert("client:peer-close");
        let q = v.quiescent.iter().find(|(s, _)| *s > e).map(|x| x.0);
        if let Some(q) = q {
            if v.dispatch_end_seq.map_or(true, |d| d > q) {
                return fail(format!("peer closed the read side (seq {e}) but the dispatch was still running at the next quiescence (seq {q})"));
            }
            for c in &run.calls {
                let live = c.created_seq < q
                    && run.states[c.call].resolved.as_ref().map_or(true, |x| x.0 > q)
                    && run.states[c.call].dropped.map_or(true, |x| x.0 > q);
                if live {
                    return fail(format!("call {} hangs after the peer closed the connection (pending at quiescence seq {q})", c.call));
                }
            }
        }
        for c in &run.calls {
            if let Some((rseq, _, out)) = &run.states[c.call].resolved {
                if *rseq > e {
                    match out {
                        Outcome::Shutdown => {}
                        Outcome::Ok(_) | Outcome::Server(..) | Outcome::Deadline => {}
                        other => return fail(format!("call {} ended with {other:?} after a clean peer close", c.call)),
                    }
                }
            }
        }
        if run.calls.iter().any(|c| c.created_seq < e && run.states[c.call].resolved.as_ref().map_or(false, |x| x.0 > e)) {
            nontrivial = true;
            classes.insert("client:peer-close-with-outstanding-calls");
        }
    } else {
        // handle-drop path
        let _ = peer_closed_seq;
        classes.insert("client:handle-drop-shutdown");
        let Some(cs) = first_close else {
            return fail("dispatch completed after the last handle was dropped without closing the transport's write side".into());
        };
        // closed completed
        let closed_ok = run.recs.iter().any(|r| matches!(&r.ev, Ev::Io { tr: 0, op: IoOp::Close, res: IoRes::Ok, .. }));
        if !closed_ok {
            return fail("dispatch completed but poll_close never completed".into());
        }
        // every cancel that is owed was written before the first poll_close
        let final_t = run.recs.last().map(|r| r.t_ns).unwrap_or(0) as i128;
        for c in &run.calls {
            let Some((dseq, _)) = run.states[c.call].dropped else { continue };
            if run.states[c.call].resolved.is_some() {
                continue;
            }
            let Some((id, sseq, ok, _)) = v.wire.get(&c.call) else { continue };
            let cancel = v.cancels_for(*id).first().map(|s| s.seq);
            let responded = v.responses_for(*id).iter().any(|n| n.seq > *sseq);
            let excused = responded || final_t >= c.deadline_ns || !*ok;
            match cancel {
                Some(cseq) => {
                    if cseq > cs {
                        return fail(format!("Cancel({id}) written at seq {cseq}, after poll_close was first called at seq {cs}"));
                    }
                    if dseq > 0 {
                        classes.insert("client:cancel-before-close");
                    }
                }
                None => {
                    if !excused {
                        return fail(format!(
                            "abandoned call {} (id {id}) was on the wire but the transport was closed (seq {cs}) without its cancellation being transmitted",
                            c.call
                        ));
                    }
                }
            }
        }
        // shutdown began with queued cancels or in-flight requests?
        let last_handle_drop = run.recs.iter().rev().find(|r| matches!(&r.ev, Ev::HandleDropped { .. })).map(|r| r.seq).unwrap_or(0);
        let cancels_after = v.sends.iter().any(|s| matches!(s.msg, Msg::Cancel { .. }) && s.seq > last_handle_drop);
        if cancels_after {
            nontrivial = true;
            classes.insert("client:shutdown-with-queued-cancels");
        }
        if run.recs.iter().any(|r| matches!(&r.ev, Ev::Io { tr: 0, op: IoOp::Close, res: IoRes::Pending, .. })) {
            classes.insert("client:close-pending");
        }
    }
    Ok(CaseOk { nontrivial, classes: classes.into_iter().collect(), excluded_known: run.excluded_known })
}

pub fn strategy_client() -> proptest::strategy::BoxedStrategy<CScenario> {
    scenario_strategy(&client_profile())
}
