//! Sink/Stream contract monitor over the transport operation log (used by C14 for both ends).

use crate::sim::hist::{Ev, IoOp, IoRes, Rec};

pub struct ContractStats {
    pub not_ready_seen: bool,
    pub sends: usize,
    pub sends_after_not_ready: usize,
    pub max_streak: u32,
}

/// Checks rules (1)-(4) of C14 for transport `tr`, owned by task `owner`.
pub fn check_contract(recs: &[Rec], tr: u8, owner: usize, independent: bool, is_server: bool) -> Result<ContractStats, String> {
    let mut ready_credit = false;
    let mut closed_called = false;
    let mut failed: Option<&'static str> = None;
    // any transport failure (including a read failure or end of stream) ends the connection: rule (3) no longer applies
    let mut connection_over = false;
    let mut unflushed = 0usize;
    // after the last successful write: did a flush attempt end Pending (flush in progress)?
    let mut flush_in_progress = false;
    let mut stats = ContractStats { not_ready_seen: false, sends: 0, sends_after_not_ready: 0, max_streak: 0 };
    let mut streak = 0u32;
    let mut in_owner_poll = false;
    for r in recs {
        match &r.ev {
            Ev::PollStart { task, .. } if *task == owner => {
                in_owner_poll = true;
                streak = 0;
            }
            Ev::PollEnd { task, out, woken } if *task == owner => {
                in_owner_poll = false;
                // a task that is already woken again when it returns Pending has not gone idle
                if out == "Pending" && !*woken && unflushed > 0 && !flush_in_progress && failed.is_none() && !connection_over {
                    return Err(format!(
                        "seq {}: the endpoint went idle (returned Pending) with {unflushed} written item(s) not flushed and no flush in progress",
                        r.seq
                    ));
                }
                if out == "Ready" && unflushed > 0 && failed.is_none() && !connection_over && !independent {
                    return Err(format!(
                        "seq {}: the endpoint finished with {unflushed} written item(s) never flushed",
                        r.seq
                    ));
                }
            }
            Ev::Io { tr: t, op, res, sent, .. } if *t == tr => {
                let _ = in_owner_poll;
                match op {
                    IoOp::Ready => match res {
                        IoRes::Ok => {
                            ready_credit = true;
                            streak = 0;
                        }
                        IoRes::Pending => {
                            stats.not_ready_seen = true;
                            streak += 1;
                            stats.max_streak = stats.max_streak.max(streak);
                            if !independent {
                                // socket-like: a not-ready poll_ready is a flush attempt that registered a wake-up
                                flush_in_progress = true;
                            }
                            if streak > 64 {
                                return Err(format!(
                                    "seq {}: busy retry: poll_ready returned Pending {streak} times within one poll without the endpoint returning to the executor (independent readiness model: {independent})",
                                    r.seq
                                ));
                            }
                        }
                        IoRes::Err => failed = Some("readiness"),
                        _ => {}
                    },
                    IoOp::Send => {
                        if closed_called {
                            return Err(format!("seq {}: start_send({:?}) after poll_close was called", r.seq, sent));
                        }
                        if let Some(f) = failed {
                            return Err(format!("seq {}: start_send({:?}) after the transport reported a {f} failure", r.seq, sent));
                        }
                        if !ready_credit {
                            return Err(format!(
                                "seq {}: start_send({:?}) without a preceding poll_ready -> Ready(Ok) for this item",
                                r.seq, sent
                            ));
                        }
                        ready_credit = false;
                        streak = 0;
                        if matches!(res, IoRes::Err) && matches!(sent, Some(crate::sim::hist::Msg::Cancel { .. }) | Some(crate::sim::hist::Msg::Response { .. })) {
                            connection_over = true;
                        }
                        if matches!(res, IoRes::Ok) {
                            unflushed += 1;
                            flush_in_progress = false;
                            stats.sends += 1;
                            if stats.not_ready_seen {
                                stats.sends_after_not_ready += 1;
                            }
                        }
                    }
                    IoOp::Flush => match res {
                        IoRes::Ok => {
                            unflushed = 0;
                            flush_in_progress = false;
                        }
                        IoRes::Pending => flush_in_progress = true,
                        IoRes::Err => failed = Some("flush"),
                        _ => {}
                    },
                    IoOp::Close => {
                        closed_called = true;
                        match res {
                            IoRes::Ok => {
                                unflushed = 0;
                            }
                            IoRes::Pending => flush_in_progress = true,
                            IoRes::Err => failed = Some("close"),
                            _ => {}
                        }
                    }
                    IoOp::Next => match res {
                        IoRes::Item(_) => streak = 0,
                        IoRes::ItemErr => connection_over = true,
                        // the peer closing its side ends a client's connection; a server must still flush its responses
                        IoRes::End if !is_server => connection_over = true,
                        _ => {}
                    },
                }
            }
            _ => {}
        }
    }
    Ok(stats)
}
