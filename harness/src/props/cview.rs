//! Read-only views over a client run's history, shared by the client-side monitors.

use crate::engines::client::{ClientRun, BODY_BASE};
use crate::sim::hist::{Ev, IoOp, IoRes, Msg, Outcome, Rec};
use std::collections::BTreeMap;

#[derive(Clone, Debug)]
pub struct SendEv {
    pub seq: usize,
    pub t_ns: u64,
    pub msg: Msg,
    pub ok: bool,
    pub task: Option<usize>,
}

#[derive(Clone, Debug)]
pub struct NextEv {
    pub seq: usize,
    pub t_ns: u64,
    pub msg: Msg,
}

pub struct CView<'a> {
    pub run: &'a ClientRun,
    pub sends: Vec<SendEv>,
    pub nexts: Vec<NextEv>,
    /// call -> (wire id, seq of the Request send, send ok)
    pub wire: BTreeMap<usize, (u64, usize, bool, u64)>,
    /// seqs of Quiescent events
    pub quiescent: Vec<(usize, u64)>,
    pub dispatch_end_seq: Option<usize>,
    /// (seq, t) of every poll start of the dispatch task
    pub dispatch_polls: Vec<(usize, u64)>,
}

impl<'a> CView<'a> {
    pub fn new(run: &'a ClientRun) -> Self {
        let mut sends = vec![];
        let mut nexts = vec![];
        let mut wire = BTreeMap::new();
        let mut quiescent = vec![];
        let mut dispatch_end_seq = None;
        let mut dispatch_polls = vec![];
        for r in &run.recs {
            match &r.ev {
                Ev::Io { tr: 0, op: IoOp::Send, sent: Some(m), res, task } => {
                    let ok = matches!(res, IoRes::Ok);
                    if let Msg::Request { id, body, .. } = m {
                        if *body >= BODY_BASE {
                            let call = (*body - BODY_BASE) as usize;
                            wire.entry(call).or_insert((*id, r.seq, ok, r.t_ns));
                        }
                    }
                    sends.push(SendEv { seq: r.seq, t_ns: r.t_ns, msg: m.clone(), ok, task: *task });
                }
                Ev::Io { tr: 0, op: IoOp::Next, res: IoRes::Item(m), .. } => {
                    nexts.push(NextEv { seq: r.seq, t_ns: r.t_ns, msg: m.clone() });
                }
                Ev::Quiescent { .. } => quiescent.push((r.seq, r.t_ns)),
                Ev::DispatchEnd { .. } => dispatch_end_seq = Some(r.seq),
                Ev::PollStart { task: 0, .. } => dispatch_polls.push((r.seq, r.t_ns)),
                _ => {}
            }
        }
        CView { run, sends, nexts, wire, quiescent, dispatch_end_seq, dispatch_polls }
    }

    pub fn recs(&self) -> &[Rec] {
        &self.run.recs
    }

    pub fn outcome(&self, call: usize) -> Option<&Outcome> {
        self.run.states[call].resolved.as_ref().map(|r| &r.2)
    }

    pub fn resolved_seq(&self, call: usize) -> Option<usize> {
        self.run.states[call].resolved.as_ref().map(|r| r.0)
    }

    pub fn resolved_t(&self, call: usize) -> Option<u64> {
        self.run.states[call].resolved.as_ref().map(|r| r.1)
    }

    pub fn dropped_seq(&self, call: usize) -> Option<usize> {
        self.run.states[call].dropped.map(|r| r.0)
    }

    /// Response items handed to the dispatch for `id`, in order.
    pub fn responses_for(&self, id: u64) -> Vec<&NextEv> {
        self.nexts
            .iter()
            .filter(|n| matches!(&n.msg, Msg::Response { id: i, .. } if *i == id))
            .collect()
    }

    pub fn cancels_for(&self, id: u64) -> Vec<&SendEv> {
        self.sends
            .iter()
            .filter(|s| matches!(&s.msg, Msg::Cancel { id: i, .. } if *i == id))
            .collect()
    }

    pub fn first_panic(&self) -> Option<String> {
        self.run.panics.first().map(|(t, m)| format!("task {t}: {m}"))
    }

    pub fn tail(&self, n: usize) -> serde_json::Value {
        let n = if std::env::var("VERIF_FULL").is_ok() { usize::MAX } else { n };
        let r = &self.run.recs;
        let start = r.len().saturating_sub(n);
        serde_json::to_value(&r[start..]).unwrap_or(serde_json::Value::Null)
    }
}
