//! C01 — Responses reach exactly the call that asked.

use super::cgen::{scenario_strategy, CProfile, CScenario};
use super::cview::CView;
use crate::engines::client::{run_client, COp, Dl};
use crate::sim::hist::{Ev, Msg, Outcome};
use crate::sim::runner::{CaseOk, CaseResult, Prop, Tier, Violation, Work};
use proptest::prelude::*;
use serde_json::json;
use std::collections::{BTreeMap, BTreeSet};

pub struct C01;

pub fn profile() -> CProfile {
    CProfile {
        w_stepcoop: 3,
        w_step: 30,
        w_drain: 6,
        w_newcall: 22,
        w_reply: 18,
        w_dup: 5,
        w_unknown: 5,
        w_dropcall: 5,
        w_clone: 3,
        w_drophandle: 1,
        w_advance: 4,
        w_advance_to: 2,
        max_ops: 80,
        dl_far: 8,
        dl_short: 2,
        dl_past: 1,
        max_in_flight: 1..=6,
        buffer: 1..=4,
        cap: 1..=3,
        independent: Some(false),
        ..CProfile::default()
    }
}

pub fn check(sc: &CScenario) -> CaseResult {
    let mut ops = sc.ops.clone();
    ops.push(COp::Budget { n: 255 });
    ops.push(COp::CloseOut);
    let run = run_client(&sc.cfg, &ops);
    let v = CView::new(&run);
    let fail = |msg: String| -> CaseResult {
        Err(Violation::new(msg).with_detail(json!({"history_tail": v.tail(60)})))
    };
    if let Some(p) = v.first_panic() {
        return fail(format!("panic during a fault-free scenario: {p}"));
    }
    if run.livelock {
        return fail("livelock: 20000 scheduler steps without quiescence".into());
    }
    // distinct wire ids for distinct calls
    let mut by_id: BTreeMap<u64, usize> = BTreeMap::new();
    for (call, (id, _, _, _)) in &v.wire {
        if let Some(other) = by_id.insert(*id, *call) {
            return fail(format!("calls {other} and {call} were transmitted with the same request id {id}"));
        }
    }
    // every Request on the wire carries a body of a created call, once
    let mut seen_bodies = BTreeSet::new();
    for s in &v.sends {
        if let Msg::Request { body, .. } = &s.msg {
            if !seen_bodies.insert(*body) {
                return fail(format!("request body {body} transmitted twice"));
            }
        }
    }
    let mut delivered_payloads: BTreeMap<String, usize> = BTreeMap::new();
    let mut late_or_stray = 0usize;
    for c in &run.calls {
        let call = c.call;
        let st = &run.states[call];
        let Some((rseq, rt, outcome)) = &st.resolved else {
            if st.dropped.is_some() {
                continue;
            }
            return fail(format!(
                "call {call} is still pending after every transmitted request was answered and the system is quiescent (a response was lost or misdelivered, or another call's traffic disturbed it)"
            ));
        };
        match outcome {
            Outcome::Ok(_) | Outcome::Server(..) => {
                let Some((id, sseq, _ok, _)) = v.wire.get(&call) else {
                    return fail(format!("call {call} completed with {outcome:?} but its request was never written"));
                };
                let first = v
                    .responses_for(*id)
                    .into_iter()
                    .find(|n| n.seq > *sseq && n.seq < *rseq);
                let Some(first) = first else {
                    return fail(format!(
                        "call {call} (wire id {id}) completed with {outcome:?} but no response bearing its id was handed to the dispatch between its transmission and its completion"
                    ));
                };
                let Msg::Response { result, .. } = &first.msg else { unreachable!() };
                let same = match (outcome, result) {
                    (Outcome::Ok(p), Ok(q)) => p == q,
                    (Outcome::Server(k, d), Err((k2, d2))) => k == k2 && d == d2,
                    _ => false,
                };
                if !same {
                    return fail(format!(
                        "call {call} (wire id {id}) completed with {outcome:?} but the first response the peer sent for its id was {result:?}"
                    ));
                }
                let key = format!("{result:?}");
                if let Some(other) = delivered_payloads.insert(key, call) {
                    return fail(format!("one response payload was delivered to two calls ({other} and {call})"));
                }
            }
            Outcome::Deadline => {
                if (*rt as i128) < c.deadline_ns {
                    return fail(format!(
                        "call {call} failed with DeadlineExceeded at t={rt}ns, before its deadline {}ns (no reply was involved)",
                        c.deadline_ns
                    ));
                }
            }
            other => {
                return fail(format!(
                    "call {call} failed with {other:?} in a scenario without faults, peer close or handle loss"
                ));
            }
        }
    }
    // classification
    let mut outstanding_max = 0usize;
    {
        let mut out: BTreeSet<usize> = BTreeSet::new();
        for r in &run.recs {
            match &r.ev {
                Ev::Io { tr: 0, op: crate::sim::hist::IoOp::Send, sent: Some(Msg::Request { body, .. }), .. } => {
                    out.insert((*body - crate::engines::client::BODY_BASE) as usize);
                }
                Ev::CallResolved { call, .. } | Ev::CallDropped { call } => {
                    out.remove(call);
                }
                _ => {}
            }
            outstanding_max = outstanding_max.max(out.len());
        }
    }
    // out-of-order replies: a response for id a handed over before one for id b < a (ids are sequential)
    let resp_ids: Vec<u64> = v
        .nexts
        .iter()
        .filter_map(|n| if let Msg::Response { id, .. } = &n.msg { Some(*id) } else { None })
        .collect();
    let known_ids: BTreeSet<u64> = v.wire.values().map(|w| w.0).collect();
    let mut reordered = false;
    let mut maxid = None;
    let mut seen_resp = BTreeSet::new();
    for id in &resp_ids {
        if !known_ids.contains(id) {
            late_or_stray += 1;
            continue;
        }
        if !seen_resp.insert(*id) {
            late_or_stray += 1;
            continue;
        }
        if let Some(m) = maxid {
            if *id < m {
                reordered = true;
            }
        }
        maxid = Some(maxid.map_or(*id, |m: u64| m.max(*id)));
    }
    // late: response handed over after its call ended
    for c in &run.calls {
        if let Some((id, _, _, _)) = v.wire.get(&c.call) {
            let end = run.states[c.call]
                .resolved
                .as_ref()
                .map(|r| r.0)
                .or(run.states[c.call].dropped.map(|d| d.0));
            if let Some(end) = end {
                if v.responses_for(*id).iter().any(|n| n.seq > end) {
                    late_or_stray += 1;
                }
            }
        }
    }
    let mut classes = vec![];
    if outstanding_max >= 3 {
        classes.push("outstanding>=3");
    }
    if reordered {
        classes.push("reordered-replies");
    }
    if late_or_stray > 0 {
        classes.push("dup/unknown/late-reply");
    }
    if run.calls.iter().any(|c| c.handle > 0) {
        classes.push("call-via-cloned-handle");
    }
    if run.states.iter().any(|s| matches!(s.resolved, Some((_, _, Outcome::Deadline)))) {
        classes.push("expired-call");
    }
    if run.states.iter().any(|s| s.dropped.is_some()) {
        classes.push("abandoned-call");
    }
    Ok(CaseOk {
        nontrivial: outstanding_max >= 3 && reordered && late_or_stray > 0,
        classes,
        excluded_known: run.excluded_known,
    })
}

impl Prop for C01 {
    type Scenario = CScenario;
    fn id(&self) -> &'static str {
        "C01"
    }
    fn rule(&self) -> String {
        "Scenario = client config (max_in_flight 1-6, request buffer 1-4, coupled transport cap 1-3) + up to 80 generated ops \
         (new calls over cloned handles, scheduler steps with a generated choice of woken task, replies in generated order, \
         duplicate replies, replies for ids never issued (u64::MAX, next id, 2^32+1, ...), abandonments, clock advances, handle drops), \
         followed by a closing phase that answers every request the peer has seen until quiescence. Oracle: model of the wire \
         (first response handed to the dispatch for a call's own id after its request was written is what the call returns; \
         no payload to two calls; distinct wire ids; every non-abandoned far-deadline call ends with its own reply). \
         Non-trivial = >=3 calls outstanding at once AND a reply out of request order AND a duplicate/unknown/late reply; \
         distinct = distinct scenario JSON."
            .into()
    }
    fn assumptions(&self) -> Vec<String> {
        vec![
            "schedules explored at poll granularity under a wake-only executor".into(),
            "transport is the scripted SimTransport; no faults in C01 scenarios".into(),
        ]
    }
    fn work(&self, tier: Tier) -> Work {
        match tier {
            Tier::Quick => Work { cases_per_worker: 5000, workers: 8 },
            Tier::Thorough => Work { cases_per_worker: 160000, workers: 16 },
        }
    }
    fn strategy(&self, _tier: Tier) -> BoxedStrategy<CScenario> {
        let _ = Dl::InUs(0);
        scenario_strategy(&profile())
    }
    fn run_case(&self, sc: &CScenario) -> CaseResult {
        check(sc)
    }
}
