//! C17 — Generated service glue connects each method to itself.
//! Engine F: generate service definitions (proptest strategies), emit a crate, compile it with the
//! real `#[tarpc::service]` macro, run it against a recording implementor, compare.

use crate::sim::runner::{verif_root, RunArgs, Tier};
use proptest::prelude::*;
use proptest::strategy::ValueTree;
use proptest::test_runner::{Config, RngSeed, TestRunner};
use serde::{Deserialize, Serialize};
use serde_json::json;
use std::collections::{BTreeMap, BTreeSet};
use std::fmt::Write as _;
use std::path::{Path, PathBuf};
use std::process::Command;
use std::time::Instant;

#[derive(Clone, Copy, Debug, Serialize, Deserialize, PartialEq, Eq, PartialOrd, Ord)]
pub enum Ty {
    U8,
    U32,
    I64,
    Bool,
    Str,
    Bytes,
    OptU32,
    Pair,
    Unit,
    /// tarpc::context::Context passed as ordinary data
    Ctx,
}

impl Ty {
    fn rust(self) -> &'static str {
        match self {
            Ty::U8 => "u8",
            Ty::U32 => "u32",
            Ty::I64 => "i64",
            Ty::Bool => "bool",
            Ty::Str => "String",
            Ty::Bytes => "Vec<u8>",
            Ty::OptU32 => "Option<u32>",
            Ty::Pair => "(u8, String)",
            Ty::Unit => "()",
            Ty::Ctx => "tarpc::context::Context",
        }
    }
    /// Rust expression producing a value of this type from seed expression `v` (u64).
    fn value(self, v: &str) -> String {
        match self {
            Ty::U8 => format!("(({v}) % 251) as u8"),
            Ty::U32 => format!("({v}) as u32"),
            Ty::I64 => format!("-(({v}) as i64)"),
            Ty::Bool => format!("({v}) % 2 == 0"),
            Ty::Str => format!("format!(\"s{{}}\", {v})"),
            Ty::Bytes => format!("vec![(({v}) % 251) as u8, 1u8]"),
            Ty::OptU32 => format!("Some(({v}) as u32)"),
            Ty::Pair => format!("((({v}) % 251) as u8, format!(\"p{{}}\", {v}))"),
            Ty::Unit => "()".to_string(),
            Ty::Ctx => format!("mkctx(500_000 + ({v}) as usize)"),
        }
    }
}

#[derive(Clone, Debug, Serialize, Deserialize, PartialEq, Eq)]
pub struct Arg {
    pub name: String,
    pub ty: Ty,
}

#[derive(Clone, Debug, Serialize, Deserialize, PartialEq, Eq)]
pub struct Method {
    pub name: String,
    pub args: Vec<Arg>,
    /// None = no `->` (default return type)
    pub ret: Option<Ty>,
    pub doc: bool,
    /// 0 none, 1 #[cfg(all())] (kept), 2 #[cfg(any())] (removed)
    pub cfg: u8,
}

#[derive(Clone, Debug, Serialize, Deserialize, PartialEq, Eq)]
pub struct Service {
    pub name: String,
    pub methods: Vec<Method>,
    /// 0: #[tarpc::service]; 1: derive_serde = true; 2: derive_serde = false; 3: derive = [Serialize, Deserialize]; 4: derive = [Clone]
    pub derive: u8,
    pub over_channel: bool,
}

const KEYWORDS: &[&str] = &["type", "match", "loop", "fn", "use", "mod", "move", "ref", "where", "async", "await", "dyn", "impl", "in", "box", "try", "yield", "final", "macro"];

fn camel(s: &str) -> String {
    // reference implementation of the documented mapping (used only to keep generated services free of variant collisions)
    let mut out = String::new();
    let mut up = true;
    for c in s.trim_start_matches("r#").chars() {
        if c == '_' {
            up = true;
        } else if up {
            out.extend(c.to_uppercase());
            up = false;
        } else {
            out.extend(c.to_lowercase());
        }
    }
    out
}

fn method_name_strategy() -> BoxedStrategy<String> {
    let seg = prop_oneof![
        4 => "[a-z]{1,5}",
        2 => "[a-z][A-Z][a-z]{0,3}",
        1 => "[a-z]{1,3}[0-9]",
        1 => "[a-z][A-Z]{1,3}",
    ];
    let plain = (proptest::collection::vec(seg, 1..=3), proptest::collection::vec(prop_oneof![3 => Just("_"), 1 => Just("__")], 2), 0u8..6)
        .prop_map(|(segs, seps, deco)| {
            let mut s = String::new();
            for (i, g) in segs.iter().enumerate() {
                if i > 0 {
                    s.push_str(seps[(i - 1) % seps.len()]);
                }
                s.push_str(g);
            }
            match deco {
                0 => format!("_{s}"),
                1 => format!("{s}_"),
                2 => format!("{s}__"),
                _ => s,
            }
        });
    let kw = proptest::sample::select(KEYWORDS.to_vec()).prop_map(|k| format!("r#{k}"));
    prop_oneof![10 => plain, 2 => kw].boxed()
}

fn arg_name_strategy() -> BoxedStrategy<String> {
    prop_oneof![
        5 => "[a-z]{1,4}",
        3 => proptest::sample::select(vec!["request", "req", "resp", "msg", "response", "service", "stub", "result", "span", "name"]).prop_map(|s| s.to_string()),
        1 => proptest::sample::select(vec!["type", "match", "loop", "move", "ref"]).prop_map(|k| format!("r#{k}")),
        1 => "[a-z]{1,3}_[a-z]{1,3}",
        1 => "_[a-z]{1,3}",
    ]
    .boxed()
}

fn ty_strategy() -> BoxedStrategy<Ty> {
    // biased toward few types so that sibling methods share signatures and arguments share types
    prop_oneof![
        5 => Just(Ty::U32),
        4 => Just(Ty::Str),
        2 => Just(Ty::U8),
        2 => Just(Ty::I64),
        1 => Just(Ty::Bool),
        1 => Just(Ty::Bytes),
        1 => Just(Ty::OptU32),
        1 => Just(Ty::Pair),
    ]
    .boxed()
}

fn reserved_arg(name: &str) -> bool {
    matches!(name, "ctx" | "context" | "self" | "Self" | "crate" | "super" | "_" | "as" | "do" | "if" | "fn" | "in" | "let" | "mut" | "pub" | "use" | "for" | "dyn" | "mod" | "ref" | "try" | "box" | "else" | "enum" | "impl" | "loop" | "move" | "self_" | "true" | "type" | "async" | "await" | "break" | "const" | "false" | "match" | "trait" | "where" | "while" | "yield" | "static" | "struct" | "unsafe" | "return" | "extern" | "final" | "macro" | "gen" | "priv" | "abstract" | "become" | "override" | "typeof" | "unsized" | "virtual" | "continue")
}

fn reserved_method(name: &str) -> bool {
    let bare = name.trim_start_matches("r#");
    matches!(bare, "new" | "serve") || (!name.starts_with("r#") && reserved_arg(name))
}

pub fn service_strategy(idx: usize) -> BoxedStrategy<Service> {
    let method = (
        method_name_strategy(),
        proptest::collection::vec(
            prop_oneof![
                30 => (arg_name_strategy(), ty_strategy()),
                // a context passed as data, under names close to the ones the generated glue uses itself
                2 => (proptest::sample::select(vec!["_ctx", "ctx_", "_context", "context_", "upstream", "_req", "_request", "this", "_self", "_service", "resp_", "_resp"]).prop_map(|s| s.to_string()), Just(Ty::Ctx)),
                1 => (proptest::sample::select(vec!["_ctx", "_req", "_request", "_service", "_resp", "_msg"]).prop_map(|s| s.to_string()), ty_strategy()),
            ],
            0..=5,
        ),
        proptest::option::weighted(0.7, prop_oneof![8 => ty_strategy(), 1 => Just(Ty::Unit)]),
        any::<bool>(),
        prop_oneof![6 => Just(0u8), 2 => Just(1u8), 1 => Just(2u8)],
        // sibling: take an earlier method's argument list (same names), permuted, optionally with all types equal
        proptest::option::weighted(0.2, (any::<u16>(), any::<u8>())),
    )
        .prop_map(|(name, args, ret, doc, cfg, sib)| (Method { name, args: args.into_iter().map(|(name, ty)| Arg { name, ty }).collect(), ret, doc, cfg }, sib));
    (proptest::collection::vec(method, 1..=8), 0u8..5, proptest::bool::weighted(0.35), 0u8..4)
        .prop_map(move |(methods, derive, over_channel, name_style)| {
            let sibs: Vec<Option<(u16, u8)>> = methods.iter().map(|m| m.1).collect();
            let mut methods: Vec<Method> = methods.into_iter().map(|m| m.0).collect();
            for mi in 1..methods.len() {
                let Some((sel, perm)) = sibs[mi] else { continue };
                let src = ((sel as usize) * mi) >> 16;
                let mut args = methods[src].args.clone();
                if args.len() < 2 {
                    continue;
                }
                if perm & 1 == 0 {
                    args.reverse();
                } else {
                    let k = 1 + (perm as usize >> 3) % (args.len() - 1);
                    args.rotate_left(k);
                }
                if perm & 4 != 0 {
                    // same type everywhere: a permutation of the names then still type-checks at every position
                    let t = args[0].ty;
                    for a in args.iter_mut() {
                        a.ty = t;
                    }
                    let ret = methods[src].ret;
                    let src_args: Vec<Arg> = methods[src].args.iter().map(|a| Arg { name: a.name.clone(), ty: t }).collect();
                    methods[src].args = src_args;
                    methods[mi].ret = ret;
                }
                methods[mi].args = args;
            }
            // construction, not rejection: make names valid and collision-free
            let mut seen_variants = BTreeSet::new();
            let mut seen_idents = BTreeSet::new();
            for (mi, m) in methods.iter_mut().enumerate() {
                if reserved_method(&m.name) || camel(&m.name).is_empty() {
                    m.name = format!("m{mi}_{}", m.name.trim_start_matches("r#").trim_matches('_'));
                }
                while !seen_variants.insert(camel(&m.name)) || !seen_idents.insert(m.name.trim_start_matches("r#").to_string()) {
                    m.name = format!("{}_x{mi}", m.name.trim_start_matches("r#").trim_end_matches('_'));
                }
                let mut seen_args = BTreeSet::new();
                for (ai, a) in m.args.iter_mut().enumerate() {
                    if reserved_arg(&a.name) {
                        a.name = format!("a{ai}");
                    }
                    while !seen_args.insert(a.name.trim_start_matches("r#").to_string()) {
                        a.name = format!("{}{ai}", a.name.trim_start_matches("r#"));
                    }
                }
            }
            // a service whose every method is compiled out is degenerate (outside the accepted set; see either_way)
            if methods.iter().all(|m| m.cfg == 2) {
                methods[0].cfg = 0;
            }
            let name = match name_style {
                0 => format!("Svc{idx}"),
                1 => format!("S{idx}Api"),
                2 => format!("Thing{idx}_Svc"),
                _ => format!("Q{idx}"),
            };
            Service { name, methods, derive, over_channel }
        })
        .boxed()
}

fn live_methods(s: &Service) -> Vec<(usize, &Method)> {
    s.methods.iter().enumerate().filter(|(_, m)| m.cfg != 2).collect()
}

pub fn nontrivial(s: &Service) -> bool {
    let live = live_methods(s);
    let sigs: Vec<(Vec<Ty>, Option<Ty>)> = live.iter().map(|(_, m)| (m.args.iter().map(|a| a.ty).collect(), m.ret)).collect();
    let shared_sig = (0..sigs.len()).any(|i| (i + 1..sigs.len()).any(|j| sigs[i] == sigs[j]));
    let same_ty_args = live.iter().any(|(_, m)| {
        let mut c: BTreeMap<Ty, usize> = BTreeMap::new();
        for a in &m.args {
            *c.entry(a.ty).or_default() += 1;
        }
        c.values().any(|n| *n >= 2)
    });
    shared_sig || same_ty_args
}

/// Source of module `m{idx}` for one service.
pub fn emit_service(idx: usize, s: &Service) -> String {
    let mut o = String::new();
    let attr = match s.derive {
        1 => "#[tarpc::service(derive_serde = true)]",
        2 => "#[tarpc::service(derive_serde = false)]",
        3 => "#[tarpc::service(derive = [serde::Serialize, serde::Deserialize])]",
        4 => "#[tarpc::service(derive = [Clone])]",
        _ => "#[tarpc::service]",
    };
    let _ = writeln!(o, "#![allow(non_camel_case_types, non_snake_case, unused, deprecated, clippy::all)]");
    let _ = writeln!(o, "use crate::support::*;");
    let _ = writeln!(o, "{attr}");
    let _ = writeln!(o, "pub trait {} {{", s.name);
    for m in &s.methods {
        if m.doc {
            let _ = writeln!(o, "    /// Documentation of {}.", m.name.replace("r#", ""));
        }
        match m.cfg {
            1 => {
                let _ = writeln!(o, "    #[cfg(all())]");
            }
            2 => {
                let _ = writeln!(o, "    #[cfg(any())]");
            }
            _ => {}
        }
        let args: Vec<String> = m.args.iter().map(|a| format!("{}: {}", a.name, a.ty.rust())).collect();
        match m.ret {
            Some(t) => {
                let _ = writeln!(o, "    async fn {}({}) -> {};", m.name, args.join(", "), t.rust());
            }
            None => {
                let _ = writeln!(o, "    async fn {}({});", m.name, args.join(", "));
            }
        }
    }
    let _ = writeln!(o, "}}\n");
    let _ = writeln!(o, "#[derive(Clone)]\npub struct Imp(pub Log);\n");
    let _ = writeln!(o, "impl {} for Imp {{", s.name);
    for (mi, m) in s.methods.iter().enumerate() {
        match m.cfg {
            1 => {
                let _ = writeln!(o, "    #[cfg(all())]");
            }
            2 => {
                let _ = writeln!(o, "    #[cfg(any())]");
            }
            _ => {}
        }
        let args: Vec<String> = m.args.iter().map(|a| format!("{}: {}", a.name, a.ty.rust())).collect();
        let sep = if args.is_empty() { "" } else { ", " };
        let ret = m.ret.unwrap_or(Ty::Unit);
        let _ = writeln!(o, "    async fn {}(self, ctx: tarpc::context::Context{sep}{}) -> {} {{", m.name, args.join(", "), ret.rust());
        let shown: Vec<String> = m.args.iter().map(|a| format!("format!(\"{{:?}}\", {})", a.name)).collect();
        let _ = writeln!(o, "        self.0.record({idx}, {mi}, &ctx, vec![{}]);", shown.join(", "));
        let _ = writeln!(o, "        {}", ret.value(&format!("{}u64", 7000 + idx * 50 + mi)));
        let _ = writeln!(o, "    }}");
    }
    let _ = writeln!(o, "}}\n");
    // driver
    let _ = writeln!(o, "pub async fn run(log: &Log, rep: &mut Report) {{");
    let _ = writeln!(o, "    let direct = {}Client::from(NameSpy(Imp(log.clone()).serve(), log.clone()));", s.name);
    if s.over_channel {
        let _ = writeln!(o, "    let (tx, rx) = tarpc::transport::channel::unbounded();");
        let _ = writeln!(o, "    let server = tarpc::server::BaseChannel::with_defaults(rx);");
        let _ = writeln!(o, "    {{ use tarpc::server::Channel; use futures::StreamExt; tokio::task::spawn_local(server.execute(Imp(log.clone()).serve()).for_each(|f| async move {{ tokio::task::spawn_local(f); }})); }}");
        let _ = writeln!(o, "    let newc = tarpc::client::new(tarpc::client::Config::default(), tx);");
        let _ = writeln!(o, "    tokio::task::spawn_local(async move {{ let _ = newc.dispatch.await; }});");
        let _ = writeln!(o, "    let remote = {}Client::from(NameSpy(newc.client, log.clone()));", s.name);
    }
    for (mi, m) in s.methods.iter().enumerate() {
        if m.cfg == 2 {
            continue;
        }
        let paths: Vec<&str> = if s.over_channel { vec!["direct", "remote"] } else { vec!["direct"] };
        for (pi, path) in paths.iter().enumerate() {
            let k = idx * 100 + mi * 2 + pi;
            let vals: Vec<String> = m.args.iter().enumerate().map(|(ai, a)| a.ty.value(&format!("{}u64", 10 * (mi + 1) + ai + 1 + 100 * pi))).collect();
            let _ = writeln!(o, "    {{");
            let _ = writeln!(o, "        let ctx = mkctx({k});");
            for (ai, v) in vals.iter().enumerate() {
                let _ = writeln!(o, "        let v{ai}: {} = {v};", m.args[ai].ty.rust());
            }
            let shown: Vec<String> = (0..vals.len()).map(|ai| format!("format!(\"{{:?}}\", v{ai})")).collect();
            let _ = writeln!(o, "        let want_args = vec![{}];", shown.join(", "));
            let ret = m.ret.unwrap_or(Ty::Unit);
            let _ = writeln!(o, "        let want_ret: {} = {};", ret.rust(), ret.value(&format!("{}u64", 7000 + idx * 50 + mi)));
            let pass: Vec<String> = (0..vals.len()).map(|ai| format!("v{ai}")).collect();
            let sep = if pass.is_empty() { "" } else { ", " };
            let _ = writeln!(o, "        let before = log.len();");
            let _ = writeln!(o, "        let got = {path}.{}(ctx{sep}{}).await;", m.name, pass.join(", "));
            let bare = m.name.trim_start_matches("r#");
            let _ = writeln!(
                o,
                "        rep.check(log, before, \"{path}\", {idx}, {mi}, \"{}\", \"{}\", &[\"{}.{}\", \"{}.{}\"], &ctx, want_args, format!(\"{{:?}}\", got.map_err(|e| e.to_string())), format!(\"{{:?}}\", Ok::<_, String>(want_ret)));",
                s.name, bare, s.name, bare, s.name, m.name
            );
            let _ = writeln!(o, "    }}");
        }
    }
    let _ = writeln!(o, "}}");
    o
}

const SUPPORT: &str = r#"
use std::sync::{Arc, Mutex};
use std::time::{Duration, Instant};

#[derive(Clone, Debug)]
pub struct Rec { pub svc: usize, pub method: usize, pub deadline_ms: u128, pub trace: String, pub args: Vec<String> }

#[derive(Clone)]
pub struct Log { pub recs: Arc<Mutex<Vec<Rec>>>, pub names: Arc<Mutex<Vec<String>>>, pub base: Instant }

impl Log {
    pub fn new() -> Self { Log { recs: Default::default(), names: Default::default(), base: Instant::now() } }
    pub fn len(&self) -> usize { self.recs.lock().unwrap().len() }
    pub fn record(&self, svc: usize, method: usize, ctx: &tarpc::context::Context, args: Vec<String>) {
        let d = ctx.deadline.saturating_duration_since(self.base).as_millis();
        self.recs.lock().unwrap().push(Rec { svc, method, deadline_ms: d, trace: format!("{}", ctx.trace_id()), args });
    }
}

pub fn mkctx(k: usize) -> tarpc::context::Context {
    let mut c = tarpc::context::current();
    c.deadline = Instant::now() + Duration::from_secs(1000 + k as u64);
    c.trace_context.trace_id = tarpc::trace::TraceId::from(k as u128 + 1);
    c
}

/// Records the request's reported name, then delegates.
#[derive(Clone)]
pub struct NameSpy<S>(pub S, pub Log);
impl<S: tarpc::client::stub::Stub> tarpc::client::stub::Stub for NameSpy<S> {
    type Req = S::Req;
    type Resp = S::Resp;
    async fn call(&self, ctx: tarpc::context::Context, req: S::Req) -> Result<S::Resp, tarpc::client::RpcError> {
        use tarpc::RequestName;
        self.1.names.lock().unwrap().push(req.name().to_string());
        self.0.call(ctx, req).await
    }
}

#[derive(Default)]
pub struct Report { pub calls: usize, pub failures: Vec<String> }

impl Report {
    #[allow(clippy::too_many_arguments)]
    pub fn check(&mut self, log: &Log, before: usize, path: &str, svc: usize, method: usize, svc_name: &str, mname: &str, ok_names: &[&str],
                 ctx: &tarpc::context::Context, want_args: Vec<String>, got: String, want: String) {
        self.calls += 1;
        let recs = log.recs.lock().unwrap();
        let new = &recs[before.min(recs.len())..];
        let mut bad = vec![];
        if new.len() != 1 {
            bad.push(format!("{} implementor invocations for one call", new.len()));
        }
        if let Some(r) = new.first() {
            if r.svc != svc || r.method != method { bad.push(format!("implementor method #{} of service #{} ran instead of #{} of #{}", r.method, r.svc, method, svc)); }
            if r.args != want_args { bad.push(format!("implementor saw arguments {:?}, caller passed {:?}", r.args, want_args)); }
            let want_dl = ctx.deadline.saturating_duration_since(log.base).as_millis();
            if r.deadline_ms != want_dl { bad.push(format!("implementor saw deadline {} ms, caller's context says {} ms", r.deadline_ms, want_dl)); }
            if r.trace != format!("{}", ctx.trace_id()) { bad.push(format!("implementor saw trace id {}, caller's {}", r.trace, ctx.trace_id())); }
        }
        if got != want { bad.push(format!("caller got {got}, the invocation returned {want}")); }
        let names = log.names.lock().unwrap();
        match names.last() {
            Some(n) if ok_names.contains(&n.as_str()) => {}
            other => bad.push(format!("request name reported as {:?}, expected one of {:?}", other, ok_names)),
        }
        if !bad.is_empty() {
            self.failures.push(format!("FAIL svc={svc} ({svc_name}) method={method} ({mname}) path={path}: {}", bad.join("; ")));
        }
    }
}
"#;

fn emit_main(mods: &[(usize, String)]) -> String {
    // mods: (module index, file name relative to src/)
    let mut o = String::new();
    o.push_str("#[path = \"../support.rs\"]\npub mod support;\n");
    for (i, f) in mods {
        let _ = writeln!(o, "#[path = \"../{f}\"]\npub mod m{i};");
    }
    o.push_str("\nfn main() {\n    let rt = tokio::runtime::Builder::new_current_thread().enable_all().build().unwrap();\n    let local = tokio::task::LocalSet::new();\n    let code = local.block_on(&rt, async {\n        let log = support::Log::new();\n        let mut rep = support::Report::default();\n");
    for (i, _) in mods {
        let _ = writeln!(o, "        m{i}::run(&log, &mut rep).await;");
    }
    o.push_str("        for f in &rep.failures { println!(\"{f}\"); }\n        println!(\"CALLS {}\", rep.calls);\n        if rep.failures.is_empty() { 0 } else { 1 }\n    });\n    std::process::exit(code);\n}\n");
    o
}

/// Collision candidates: definitions whose method names collide with generated items under the
/// documented name mapping. Each must be rejected at compile time; if one is accepted it is run and
/// must connect each method to itself (never a miscompile).
pub fn collision_candidates(tier: Tier) -> Vec<(String, Service)> {
    let mut v = vec![];
    let mut add = |name: &str, methods: Vec<(&str, Vec<Ty>, Option<Ty>)>| {
        let methods = methods
            .into_iter()
            .map(|(n, tys, ret)| Method {
                name: n.to_string(),
                args: tys.into_iter().enumerate().map(|(i, ty)| Arg { name: format!("a{i}"), ty }).collect(),
                ret,
                doc: false,
                cfg: 0,
            })
            .collect();
        v.push((name.to_string(), Service { name: "S".to_string(), methods, derive: 0, over_channel: false }));
    };
    add("cand_new", vec![("new", vec![], None)]);
    add("cand_serve", vec![("serve", vec![Ty::U8], Some(Ty::U8))]);
    add("cand_raw_new", vec![("r#new", vec![], None)]);
    add("cand_raw_serve", vec![("r#serve", vec![], None)]);
    add("cand_new_among_others", vec![("a", vec![Ty::U8], None), ("new", vec![Ty::Str], Some(Ty::Str)), ("b", vec![], None)]);
    add("cand_collide_double_underscore", vec![("a_b", vec![Ty::U32], Some(Ty::U32)), ("a__b", vec![Ty::Str], Some(Ty::Str))]);
    add("cand_collide_trailing", vec![("ab_", vec![Ty::U32], None), ("ab", vec![Ty::U32], None)]);
    add("cand_collide_leading", vec![("_ab", vec![], Some(Ty::U8)), ("ab", vec![], Some(Ty::I64))]);
    add("cand_collide_case", vec![("aB", vec![], Some(Ty::U8)), ("ab", vec![], Some(Ty::U8))]);
    add("cand_collide_camel_vs_snake", vec![("foo_bar", vec![Ty::U8], None), ("fooBar", vec![Ty::U8], None)]);
    add("cand_collide_raw", vec![("r#type", vec![Ty::U8], None), ("Type", vec![Ty::U8], None)]);
    add("cand_collide_upper", vec![("GET", vec![], None), ("get", vec![], None)]);
    if tier == Tier::Thorough {
        add("cand_collide_three", vec![("x_y_z", vec![], None), ("x__y_z", vec![], None), ("other", vec![], None)]);
        add("cand_collide_digit", vec![("a1_b", vec![Ty::Bool], None), ("a1__b", vec![Ty::Bool], None)]);
        add("cand_serve_with_args", vec![("serve", vec![Ty::U8, Ty::U8, Ty::Str], Some(Ty::OptU32))]);
        add("cand_new_ret", vec![("ok", vec![], None), ("new", vec![], Some(Ty::U32))]);
        add("cand_collide_mixed", vec![("fooBAR", vec![], None), ("FOObar", vec![], None)]);
        add("cand_collide_long", vec![("alpha_beta_gamma", vec![Ty::Str], None), ("alpha__beta___gamma", vec![Ty::Str], None)]);
    }
    v
}

/// Programs outside both sets: may be rejected, but if accepted they must behave (they only need to build here).
pub fn either_way() -> Vec<(String, String)> {
    let mk = |body: &str| format!("#![allow(non_camel_case_types, non_snake_case, unused)]\n#[tarpc::service]\ntrait S {{\n{body}\n}}\nfn main() {{}}\n");
    vec![
        ("either_only_underscores".into(), mk("    async fn __();")),
        ("either_arg_named_ctx".into(), mk("    async fn a(ctx: u8);")),
        ("either_method_named_self".into(), mk("    async fn r#Self_();")),
        ("either_all_methods_cfg_removed".into(), mk("    #[cfg(any())]\n    async fn gone(x: u8);")),
        ("either_no_methods".into(), mk("")),
    ]
}

const ACCEPTED_BINS: usize = 8;

fn write_crate(dir: &Path, services: &[Service], cands: &[(String, Service)], eithers: &[(String, String)]) -> std::io::Result<()> {
    let _ = std::fs::remove_dir_all(dir.join("src"));
    std::fs::create_dir_all(dir.join("src/bin"))?;
    let mut cargo = String::from(
        "[package]\nname = \"macrogen\"\nversion = \"0.0.0\"\nedition = \"2021\"\npublish = false\nautobins = false\n\n[workspace]\n\n[dependencies]\ntarpc = { path = \"/repo/tarpc\", features = [\"full\"] }\ntokio = { version = \"1\", features = [\"rt\", \"macros\", \"time\"] }\nfutures = \"0.3\"\nserde = { version = \"1\", features = [\"derive\"] }\n\n[profile.dev]\ndebug = 0\nincremental = false\n",
    );
    std::fs::write(dir.join("src/support.rs"), SUPPORT)?;
    // accepted services spread over several bins so that they compile in parallel
    let nb = ACCEPTED_BINS.min(services.len().max(1));
    for b in 0..nb {
        let mods: Vec<(usize, String)> = (0..services.len()).filter(|i| i % nb == b).map(|i| (i, format!("m{i}.rs"))).collect();
        if mods.is_empty() {
            continue;
        }
        std::fs::write(dir.join(format!("src/bin/accepted{b}.rs")), emit_main(&mods))?;
        let _ = write!(cargo, "\n[[bin]]\nname = \"accepted{b}\"\npath = \"src/bin/accepted{b}.rs\"\n");
    }
    for (i, s) in services.iter().enumerate() {
        std::fs::write(dir.join(format!("src/m{i}.rs")), emit_service(i, s))?;
    }
    for (k, (name, svc)) in cands.iter().enumerate() {
        let idx = 900 + k;
        std::fs::write(dir.join(format!("src/{name}_svc.rs")), emit_service(idx, svc))?;
        std::fs::write(dir.join(format!("src/bin/{name}.rs")), emit_main(&[(idx, format!("{name}_svc.rs"))]))?;
        let _ = write!(cargo, "\n[[bin]]\nname = \"{name}\"\npath = \"src/bin/{name}.rs\"\n");
    }
    for (name, src) in eithers.iter() {
        std::fs::write(dir.join(format!("src/bin/{name}.rs")), src)?;
        let _ = write!(cargo, "\n[[bin]]\nname = \"{name}\"\npath = \"src/bin/{name}.rs\"\n");
    }
    std::fs::write(dir.join("Cargo.toml"), cargo)?;
    std::fs::copy("/repo/Cargo.lock", dir.join("Cargo.lock")).ok();
    Ok(())
}

struct BuildOut {
    ok_bins: BTreeSet<String>,
    /// (bin target, file) -> first error message
    failed_files: BTreeMap<(String, String), String>,
    raw_tail: String,
}

fn build(dir: &Path, target: &Path) -> BuildOut {
    let out = Command::new("cargo")
        .args(["build", "--offline", "--keep-going", "--bins", "--message-format=json", "-j", "16"])
        .current_dir(dir)
        .env("CARGO_TARGET_DIR", target)
        .env("CARGO_NET_OFFLINE", "true")
        .env("RUSTFLAGS", "-Awarnings")
        .output();
    let mut ok_bins = BTreeSet::new();
    let mut failed_files = BTreeMap::new();
    let mut raw_tail = String::new();
    if let Ok(out) = out {
        raw_tail = String::from_utf8_lossy(&out.stderr).lines().rev().take(15).collect::<Vec<_>>().join("\n");
        for line in String::from_utf8_lossy(&out.stdout).lines() {
            let Ok(v) = serde_json::from_str::<serde_json::Value>(line) else { continue };
            match v["reason"].as_str() {
                Some("compiler-artifact") => {
                    if v["target"]["kind"].as_array().map_or(false, |k| k.iter().any(|x| x == "bin")) && v["executable"].is_string() {
                        ok_bins.insert(v["target"]["name"].as_str().unwrap_or("").to_string());
                    }
                }
                Some("compiler-message") => {
                    if v["message"]["level"] == "error" {
                        let msg = v["message"]["message"].as_str().unwrap_or("").to_string();
                        let file = v["message"]["spans"].as_array().and_then(|s| s.first()).and_then(|s| s["file_name"].as_str()).unwrap_or("?").to_string();
                        let tname = v["target"]["name"].as_str().unwrap_or("").to_string();
                        failed_files.entry((tname, file)).or_insert(msg);
                    }
                }
                _ => {}
            }
        }
    }
    BuildOut { ok_bins, failed_files, raw_tail }
}

fn gen_services(seed: u64, n: usize) -> Vec<Service> {
    let mut runner = TestRunner::new(Config { rng_seed: RngSeed::Fixed(seed), failure_persistence: None, ..Config::default() });
    (0..n).map(|i| service_strategy(i).new_tree(&mut runner).expect("tree").current()).collect()
}

/// Run one built program; returns (calls, FAIL lines) or an inconclusive message.
fn run_bin(target: &Path, name: &str) -> Result<(usize, Vec<String>), String> {
    let exe = target.join("debug").join(name);
    let out = Command::new(&exe).output().map_err(|e| format!("cannot run {name}: {e}"))?;
    let stdout = String::from_utf8_lossy(&out.stdout).to_string();
    let mut calls = 0;
    for line in stdout.lines() {
        if let Some(n) = line.strip_prefix("CALLS ") {
            calls += n.trim().parse::<usize>().unwrap_or(0);
        }
    }
    let fails: Vec<String> = stdout.lines().filter(|l| l.starts_with("FAIL ")).map(|l| l.to_string()).collect();
    if fails.is_empty() && !out.status.success() {
        return Err(format!("{name} exited with {:?} without a FAIL line: {}", out.status.code(), String::from_utf8_lossy(&out.stderr).lines().rev().take(5).collect::<Vec<_>>().join(" | ")));
    }
    Ok((calls, fails))
}

pub fn run(args: &RunArgs) -> i32 {
    let t0 = Instant::now();
    let id = "C17";
    let root = verif_root();
    let dir = root.join("out").join("macrogen");
    let target = root.join("out").join("macrogen-target");
    let _ = std::fs::create_dir_all(&dir);
    let replay_dir = root.join("out").join("replays");
    let _ = std::fs::create_dir_all(&replay_dir);
    if let Ok(rd) = std::fs::read_dir(&replay_dir) {
        let prefix = format!("{id}-{}-", args.tier.name());
        for e in rd.filter_map(|e| e.ok()) {
            if e.file_name().to_string_lossy().starts_with(&prefix) {
                let _ = std::fs::remove_file(e.path());
            }
        }
    }

    let (services, batches): (Vec<Service>, usize) = if let Some(p) = &args.replay {
        let Some(v) = crate::sim::runner::read_json::<serde_json::Value>(p) else {
            println!("INCONCLUSIVE: cannot read replay file");
            return 2;
        };
        let sv = v.get("services").cloned().unwrap_or(json!([]));
        match serde_json::from_value::<Vec<Service>>(sv) {
            Ok(s) => (s, 1),
            Err(e) => {
                println!("INCONCLUSIVE: replay file does not decode: {e}");
                return 2;
            }
        }
    } else {
        let (n, batches) = match args.tier {
            Tier::Quick => (160usize, 1usize),
            Tier::Thorough => (160, 16),
        };
        (gen_services(args.seed, n * batches), batches)
    };
    let per = ((services.len() + batches - 1) / batches.max(1)).max(1);
    // in replay mode the services are compiled as candidates too: "rejected or behaves"
    let cands = if args.replay.is_some() { vec![] } else { collision_candidates(args.tier) };
    let eithers = if args.replay.is_some() { vec![] } else { either_way() };

    let mut violations = 0u32;
    let mut total_calls = 0usize;
    let mut cand_rejected = 0usize;
    let mut cand_accepted_ok = 0usize;
    let mut either_report = vec![];

    for (bi, chunk) in services.chunks(per).enumerate() {
        let (cd, ei): (&[(String, Service)], &[(String, String)]) = if bi == 0 { (&cands, &eithers) } else { (&[], &[]) };
        if let Err(e) = write_crate(&dir, chunk, cd, ei) {
            println!("INCONCLUSIVE: cannot write the generated crate: {e}");
            return 2;
        }
        let b = build(&dir, &target);
        // collision candidates: rejected, or accepted and correct
        for (name, svc) in cd {
            if !b.ok_bins.contains(name) {
                cand_rejected += 1;
                continue;
            }
            match run_bin(&target, name) {
                Err(m) => {
                    println!("INCONCLUSIVE: {m}");
                    return 2;
                }
                Ok((calls, fails)) => {
                    if fails.is_empty() {
                        cand_accepted_ok += 1;
                        total_calls += calls;
                    } else {
                        violations += 1;
                        let path = replay_dir.join(format!("{id}-{}-{}-{name}.json", args.tier.name(), args.seed));
                        let _ = std::fs::write(&path, serde_json::to_string_pretty(&json!({"property": id, "kind": "colliding method names were accepted and miscompiled", "failures": fails, "services": [svc], "source": emit_service(0, svc)})).unwrap());
                        println!("violation: a definition with colliding method names ({name}) was accepted instead of rejected and is miscompiled: {}", fails[0]);
                        println!("VIOLATION property={id} replay={}", path.display());
                    }
                }
            }
        }
        for (name, _) in ei {
            either_report.push(format!("{name}: {}", if b.ok_bins.contains(name) { "accepted" } else { "rejected" }));
        }
        // accepted services: every bin must build and run clean
        let nb = ACCEPTED_BINS.min(chunk.len().max(1));
        let mut bad_services: BTreeMap<usize, Vec<String>> = BTreeMap::new();
        let mut compile_bad: BTreeMap<usize, String> = BTreeMap::new();
        for bin in 0..nb {
            let name = format!("accepted{bin}");
            if (0..chunk.len()).filter(|i| i % nb == bin).count() == 0 {
                continue;
            }
            if !b.ok_bins.contains(&name) {
                let mut found = false;
                for ((t, file), msg) in &b.failed_files {
                    if t == &name {
                        if let Some(i) = file.rsplit('/').next().and_then(|f| f.strip_prefix('m')).and_then(|f| f.strip_suffix(".rs")).and_then(|f| f.parse::<usize>().ok()) {
                            compile_bad.entry(i).or_insert(msg.clone());
                            found = true;
                        }
                    }
                }
                if !found {
                    println!("INCONCLUSIVE: generated program {name} does not build and no service module is implicated:\n{}\n{:?}", b.raw_tail, b.failed_files);
                    return 2;
                }
                continue;
            }
            match run_bin(&target, &name) {
                Err(m) => {
                    println!("INCONCLUSIVE: {m}");
                    return 2;
                }
                Ok((calls, fails)) => {
                    total_calls += calls;
                    for f in fails {
                        if let Some(i) = f.split("svc=").nth(1).and_then(|x| x.split_whitespace().next()).and_then(|x| x.parse::<usize>().ok()) {
                            bad_services.entry(i).or_default().push(f);
                        }
                    }
                }
            }
        }
        for (i, msg) in compile_bad.iter().take(3) {
            violations += 1;
            let svc = &chunk[*i];
            let path = replay_dir.join(format!("{id}-{}-{}-svc{}.json", args.tier.name(), args.seed, bi * per + i));
            let _ = std::fs::write(&path, serde_json::to_string_pretty(&json!({"property": id, "kind": "accepted-grammar service failed to compile", "error": msg, "services": [svc], "source": emit_service(0, svc)})).unwrap());
            println!("violation: a service definition from the accepted grammar does not compile (or the generated glue is ill-typed): {msg}");
            println!("VIOLATION property={id} replay={}", path.display());
        }
        for (i, msgs) in bad_services.iter().take(3) {
            violations += 1;
            let svc = &chunk[*i];
            let path = replay_dir.join(format!("{id}-{}-{}-svc{}.json", args.tier.name(), args.seed, bi * per + i));
            let _ = std::fs::write(&path, serde_json::to_string_pretty(&json!({"property": id, "kind": "glue mismatch at run time", "failures": msgs, "services": [svc], "source": emit_service(0, svc)})).unwrap());
            println!("violation: {}", msgs.first().map(|s| s.as_str()).unwrap_or("mismatch"));
            println!("VIOLATION property={id} replay={}", path.display());
        }
    }

    // ---- evidence
    let nontriv: Vec<&Service> = services.iter().filter(|s| nontrivial(s)).collect();
    let distinct: BTreeSet<String> = nontriv.iter().map(|s| serde_json::to_string(s).unwrap_or_default()).collect();
    let samples: Vec<serde_json::Value> = nontriv.iter().take(3).enumerate().map(|(i, s)| json!({"service": s, "source": emit_service(i, s)})).collect();
    let mut classes: BTreeMap<&str, usize> = BTreeMap::new();
    for s in &services {
        if s.methods.iter().any(|m| m.name.starts_with("r#")) {
            *classes.entry("raw-identifier-method").or_default() += 1;
        }
        if s.methods.iter().any(|m| m.name.contains("__") || m.name.starts_with('_') || m.name.ends_with('_')) {
            *classes.entry("underscore-decorated-name").or_default() += 1;
        }
        if s.methods.iter().any(|m| m.name.chars().any(|c| c.is_uppercase())) {
            *classes.entry("mixed-case-name").or_default() += 1;
        }
        if s.methods.iter().any(|m| m.cfg == 2) {
            *classes.entry("cfg-removed-method").or_default() += 1;
        }
        if s.over_channel {
            *classes.entry("also-over-channel").or_default() += 1;
        }
        if s.methods.iter().any(|m| m.ret.is_none()) {
            *classes.entry("default-return-type").or_default() += 1;
        }
        if s.derive != 0 {
            *classes.entry("derive-option").or_default() += 1;
        }
    }
    let wall = t0.elapsed().as_secs_f64();
    if args.replay.is_none() {
        let ev = json!({
            "property_id": id, "tier": args.tier.name(), "seed": args.seed, "level": "exploration",
            "coverage": {
                "evaluations": total_calls + cand_rejected + cand_accepted_ok,
                "distinct_nontrivial": distinct.len(),
                "rule": "Programs = generated #[tarpc::service] definitions: 1-8 methods with names from a grammar (lower/mixed-case segments, single/double/leading/trailing underscores, raw keywords), 0-5 arguments named from a pool incl. request/req/resp/msg/raw keywords, types from a small set biased so that sibling methods share signatures and arguments share types, default/explicit return types, doc and cfg(all())/cfg(any()) attributes, the derive options; names are made collision-free by construction. \
                         Each service is compiled with the real macro and every live method is called with pairwise distinct arguments through the generated client over an in-process Serve stub and, for a third of the services, through client -> channel::unbounded -> BaseChannel::execute. \
                         Oracle: exactly the implementor's method m ran, with the same arguments in order and the caller's deadline and trace id; the caller got that invocation's value; RequestName::name() is '<Service>.<method>' (raw identifiers: either spelling). A second set of fixed definitions whose names collide with generated items (new/serve incl. raw spellings, variant-name collisions under the documented mapping) must be rejected at compile time, or, if accepted, behave correctly when run (never a miscompile). \
                         evaluations = method calls checked + collision candidates decided; non-trivial = a service with >=2 methods sharing a full signature or a method with >=2 arguments of one type; distinct = distinct service spec.",
                "samples": samples,
                "services": services.len(),
                "method_calls_checked": total_calls,
                "collision_candidates_rejected": cand_rejected,
                "collision_candidates_accepted_and_correct": cand_accepted_ok,
                "either_way_programs": either_report,
                "classes": classes,
                "exhaustive": false,
            },
            "assumptions": ["grammar does not generate generics, lifetimes or user attribute macros"],
            "wall_s": wall,
            "violations": violations,
        });
        let evdir = root.join("evidence");
        let _ = std::fs::create_dir_all(&evdir);
        let _ = std::fs::write(evdir.join(format!("{id}.json")), serde_json::to_string_pretty(&ev).unwrap_or_default());
    }
    println!(
        "{id} {}: services={} method_calls_checked={} collision_candidates: {} rejected, {} accepted-and-correct of {} distinct_nontrivial={} violations={} wall={:.1}s",
        args.tier.name(),
        services.len(),
        total_calls,
        cand_rejected,
        cand_accepted_ok,
        cands.len(),
        distinct.len(),
        violations,
        wall
    );
    if violations > 0 {
        1
    } else {
        0
    }
}
