//! C05 — Client enforces request deadlines, never early.

use super::cgen::{scenario_strategy, CProfile, CScenario};
use super::cview::CView;
use crate::engines::client::{run_client, COp};
use crate::sim::hist::{Ev, Msg, Outcome};
use crate::sim::runner::{CaseOk, CaseResult, Prop, Tier, Violation, Work};
use proptest::prelude::*;
use serde_json::json;
use std::collections::BTreeSet;

pub struct C05;

pub fn profile() -> CProfile {
    CProfile {
        w_stepcoop: 3,
        w_step: 30,
        w_drain: 10,
        w_newcall: 20,
        w_reply: 12,
        w_dup: 1,
        w_unknown: 1,
        w_dropcall: 2,
        w_clone: 1,
        w_drophandle: 0,
        w_advance: 8,
        w_advance_to: 14,
        w_budget: 6,
        w_fault: 0,
        w_peerclose: 0,
        w_closepending: 0,
        max_ops: 70,
        dl_far: 2,
        dl_short: 12,
        dl_past: 2,
        dl_huge: 1,
        max_in_flight: 1..=3,
        buffer: 1..=3,
        cap: 1..=2,
        independent: None,
        ..CProfile::default()
    }
}

const GRAN_NS: i128 = 2_000_000;

pub fn check(sc: &CScenario) -> CaseResult {
    let mut ops = sc.ops.clone();
    ops.push(COp::Drain);
    ops.push(COp::Budget { n: 255 });
    ops.push(COp::Drain);
    ops.push(COp::AdvancePastDeadlines);
    ops.push(COp::Drain);
    let run = run_client(&sc.cfg, &ops);
    let v = CView::new(&run);
    let fail = |msg: String| -> CaseResult {
        Err(Violation::new(msg).with_detail(json!({"history_tail": v.tail(80)})))
    };
    if run.livelock {
        return fail("livelock".into());
    }
    if let Some(p) = v.first_panic() {
        return fail(format!("panic: {p}"));
    }
    let mut classes: BTreeSet<&'static str> = BTreeSet::new();
    let mut nontrivial = false;

    // (a) never early, (b) reply before D wins, per call
    for c in &run.calls {
        let call = c.call;
        let d = c.deadline_ns;
        if let Some((_rseq, rt, out)) = &run.states[call].resolved {
            if *out == Outcome::Deadline {
                if (*rt as i128) < d {
                    return fail(format!(
                        "call {call} failed with DeadlineExceeded at t={rt}ns, before its deadline {d}ns"
                    ));
                }
                if !v.wire.contains_key(&call) {
                    return fail(format!("call {call} failed with DeadlineExceeded although its request was never handed to the transport"));
                }
            }
            if let Some((id, sseq, _ok, _)) = v.wire.get(&call) {
                let end = run.states[call].resolved.as_ref().map(|r| r.0).unwrap();
                // first response handed over after the send and before the call ended
                let first = v.responses_for(*id).into_iter().find(|n| n.seq > *sseq && n.seq < end);
                if let Some(n) = first {
                    if (n.t_ns as i128) < d {
                        classes.insert("reply-before-deadline");
                        // processed before the deadline: it is what the call returns
                        let Msg::Response { result, .. } = &n.msg else { unreachable!() };
                        let same = match (out, result) {
                            (Outcome::Ok(p), Ok(q)) => p == q,
                            (Outcome::Server(k, dd), Err((k2, d2))) => k == k2 && dd == d2,
                            _ => false,
                        };
                        if !same {
                            return fail(format!(
                                "call {call}: a reply ({result:?}) was handed to the dispatch at t={}ns, before the deadline {d}ns, but the call returned {out:?}",
                                n.t_ns
                            ));
                        }
                    } else {
                        classes.insert("reply-at-or-after-deadline");
                    }
                }
            }
        }
    }
    // (c) expiry happens within a timer granule: at each quiescence
    for r in &run.recs {
        let Ev::Quiescent { probes } = &r.ev else { continue };
        if !probes.dispatch_alive {
            continue;
        }
        let q = r.seq;
        let now = r.t_ns as i128;
        for c in &run.calls {
            let call = c.call;
            let Some((id, sseq, ok, sent_ns)) = v.wire.get(&call).copied() else { continue };
            if sseq > q || !ok {
                continue;
            }
            let live = run.states[call].resolved.as_ref().map_or(true, |x| x.0 > q)
                && run.states[call].dropped.map_or(true, |x| x.0 > q);
            let due = c.deadline_ns.max(sent_ns as i128) + GRAN_NS;
            if live && now >= due {
                return fail(format!(
                    "at quiescence (seq {q}, t={now}ns) transmitted call {call} (id {id}, deadline {}ns, written at {sent_ns}ns) is still pending more than a timer granule after its deadline",
                    c.deadline_ns
                ));
            }
            // resolved: if no reply was handed over before the quiescence at which it was due, outcome must be Deadline
            if let Some((rseq, _rt, out)) = &run.states[call].resolved {
                if *rseq < q && now >= due {
                    let any_reply = v.responses_for(id).iter().any(|n| n.seq > sseq && n.seq < *rseq);
                    if !any_reply && *out != Outcome::Deadline && !matches!(out, Outcome::Ok(_) | Outcome::Server(..)) {
                        return fail(format!("call {call} ended with {out:?} in a fault-free run after its deadline passed"));
                    }
                    if !any_reply && matches!(out, Outcome::Ok(_) | Outcome::Server(..)) {
                        return fail(format!("call {call} returned {out:?} although no reply for it was handed to the dispatch"));
                    }
                }
            }
            // classification: a dispatch poll within 1 ms before the deadline while live
            if live || run.states[call].resolved.as_ref().map_or(false, |x| x.0 > q) {
                if now >= c.deadline_ns - 1_000_000 && now < c.deadline_ns {
                    classes.insert("observed-within-1ms-before-deadline");
                }
            }
            if now >= c.deadline_ns && now <= c.deadline_ns + 1_000_000 {
                classes.insert("observed-within-1ms-after-deadline");
            }
        }
    }
    for c in &run.calls {
        if let Some((_, _, _, sent_ns)) = v.wire.get(&c.call) {
            if *sent_ns > c.created_ns + 1_000_000 && v.outcome(c.call) == Some(&Outcome::Deadline) {
                classes.insert("queued-then-expired");
                nontrivial = true;
            }
            if c.deadline_ns - (c.created_ns as i128) > 86_400 * 1_000_000_000i128 && v.outcome(c.call) == Some(&Outcome::Deadline) {
                classes.insert("long-span-expired");
            }
            if c.deadline_ns <= c.created_ns as i128 {
                classes.insert("already-expired-at-call");
            }
        }
    }
    if classes.contains("observed-within-1ms-before-deadline") && classes.contains("observed-within-1ms-after-deadline") {
        nontrivial = true;
    }
    // final: every transmitted call is resolved or dropped
    for c in &run.calls {
        if run.states[c.call].resolved.is_none() && run.states[c.call].dropped.is_none() {
            return fail(format!("call {} still pending after time advanced past every deadline and the system is quiescent", c.call));
        }
    }
    Ok(CaseOk { nontrivial, classes: classes.into_iter().collect(), excluded_known: run.excluded_known })
}

impl Prop for C05 {
    type Scenario = CScenario;
    fn id(&self) -> &'static str {
        "C05"
    }
    fn rule(&self) -> String {
        "Scenario = client config + up to 70 generated ops under virtual time (std Instant and tokio's timer wheel advanced in lock-step): deadlines already expired, 0, microseconds..minutes, \
         days..2.1 years (below the timer wheel's range, see finding F3); queueing delay from in-flight limit 1-3 and blocked transport; clock steps landing at deadline-1ms, deadline, +1ms, +2ms and arbitrary steps; \
         replies before/at/after the deadline. Oracle: no DeadlineExceeded at a virtual time < D (D fixed at call time, so queueing is charged); a reply handed to the dispatch before D is what the call returns; \
         at every quiescence with clock >= max(D, write time) + 2ms a transmitted call has resolved; no success without a reply. \
         Non-trivial = a call observed within 1 ms on both sides of its deadline, or queued >1 ms before transmission and later expired; distinct = distinct scenario JSON."
            .into()
    }
    fn assumptions(&self) -> Vec<String> {
        vec!["timer granularity: 2 ms slack for 'must have expired', none for 'never early'".into(),
             "deadlines capped at 66,000,000 s (~2.09 y); longer spans panic in DelayQueue::insert (finding F3, property C16)".into()]
    }
    fn work(&self, tier: Tier) -> Work {
        match tier {
            Tier::Quick => Work { cases_per_worker: 10000, workers: 8 },
            Tier::Thorough => Work { cases_per_worker: 160000, workers: 16 },
        }
    }
    fn strategy(&self, _tier: Tier) -> BoxedStrategy<CScenario> {
        scenario_strategy(&profile())
    }
    fn run_case(&self, sc: &CScenario) -> CaseResult {
        check(sc)
    }
}
