//! Server-side monitors: C04 (single channel), C06, C08, C12 and the server parts of C09/C10/C11/C14.

use super::sgen::{SProfile, SScenario};
use super::sview::{End, SView, GRAN_NS};
use crate::engines::server::{run_server, run_server_opts, SOp};
use crate::sim::exec::TaskState;
use crate::sim::hist::{Ev, IoOp, IoRes, Msg};
use crate::sim::runner::{CaseOk, CaseResult, Violation};
use serde_json::json;
use std::collections::BTreeSet;

fn fail(v: &SView, msg: String) -> CaseResult {
    Err(Violation::new(msg).with_detail(json!({"history_tail": v.tail(90)})))
}

fn common(v: &SView) -> Option<String> {
    if let Some(p) = v.first_panic() {
        return Some(format!("panic: {p}"));
    }
    if v.run.livelock {
        return Some("livelock: 20000 scheduler steps without quiescence".into());
    }
    None
}

fn sink_blocked(q: &super::sview::QInfo, cap: usize) -> bool {
    q.probes.budget_zero && q.probes.buffered >= cap.max(1)
}

// ------------------------------------------------------------------------------------------ C08

pub fn c08_profile() -> SProfile {
    SProfile {
        w_request: 26,
        w_cancel: 6,
        w_complete: 16,
        w_drophandler: 2,
        w_budget: 6,
        w_peerclose: 1,
        w_dropchannel: 1,
        id_fresh: 5,
        id_wide: 2,
        id_dup: 3,
        id_reuse: 3,
        hold: 0.1,
        limits: vec![None],
        independent: None,
        ..SProfile::default()
    }
}

pub fn c08_check(sc: &SScenario) -> CaseResult {
    let mut ops = sc.ops.clone();
    ops.push(SOp::Drain);
    ops.push(SOp::Budget { n: 255 });
    ops.push(SOp::StartAllHeld);
    ops.push(SOp::CompleteAll);
    ops.push(SOp::Drain);
    let run = run_server(&sc.cfg, &ops, false);
    let v = SView::new(&run);
    if let Some(m) = common(&v) {
        return fail(&v, m);
    }
    if let Some(m) = v.model_violations.first() {
        return fail(&v, m.clone());
    }
    if let Some(m) = v.late_responses.first() {
        if !v.tainted_any {
            return fail(&v, format!("{m} (a response may be transmitted only if the handler finished before the request expired)"));
        }
    }
    let mut read_order = vec![];
    let mut nondup_read = 0usize;
    for (i, t) in v.tl.iter().enumerate() {
        let Some((rseq, _)) = t.read else { continue };
        if t.ambiguous_dup {
            continue;
        }
        if t.dup_ignored {
            if !t.yielded.is_empty() || !t.started.is_empty() {
                return fail(&v, format!("request instance {i} reused id {} while that id was still in flight, yet a handler invocation was offered for it", run.insts[i].id));
            }
            if matches!(t.end, Some(End::Responded { .. })) {
                return fail(&v, format!("duplicate-in-flight request instance {i} received its own response"));
            }
            continue;
        }
        nondup_read += 1;
        read_order.push((rseq, i));
        if sc.cfg.adaptor {
            if t.started.len() > 1 {
                return fail(&v, format!("request instance {i} (id {}) had {} handler invocations", run.insts[i].id, t.started.len()));
            }
        } else if t.yielded.len() != 1 {
            // a stream error stops the stream in the poll that read the request
            let err_same_poll = v.stream_err.as_ref().map_or(false, |(s, _)| *s > rseq);
            if !(t.yielded.is_empty() && err_same_poll && v.consumer_polls.iter().any(|(a, b, _)| *a < rseq && rseq < *b && v.stream_err.as_ref().unwrap().0 < *b)) {
                return fail(&v, format!(
                    "request instance {i} (id {}, {}) was read at seq {rseq} but offered to the application {} times (expected exactly once)",
                    run.insts[i].id, run.insts[i].kind, t.yielded.len()
                ));
            }
        }
        if let Some(End::Responded { seq, result, .. }) = &t.end {
            if t.throttled {
                return fail(&v, format!("request instance {i} was throttled although no limit is configured"));
            }
            let Some((cseq, _, hres)) = &t.completed else {
                return fail(&v, format!("Response for request instance {i} (id {}) written at seq {seq} although its handler never completed", run.insts[i].id));
            };
            if cseq > seq {
                return fail(&v, format!("Response for request instance {i} written before its handler completed"));
            }
            let same = match (hres, result) {
                (Ok(p), Ok(q)) => p == q,
                (Err(d), Err((k, d2))) => k == "Other" && d == d2,
                _ => false,
            };
            if !same {
                return fail(&v, format!("Response for request instance {i} carries {result:?} but its handler returned {hres:?}"));
            }
        }
    }
    // arrival order among yielded requests
    if !sc.cfg.adaptor {
        let mut ys: Vec<(usize, usize)> = read_order
            .iter()
            .filter(|(_, i)| v.tl[*i].yielded.len() == 1)
            .map(|(_, i)| (v.tl[*i].yielded[0], *i))
            .collect();
        ys.sort();
        let by_read: Vec<usize> = read_order.iter().filter(|(_, i)| v.tl[*i].yielded.len() == 1).map(|(_, i)| *i).collect();
        let by_yield: Vec<usize> = ys.iter().map(|(_, i)| *i).collect();
        if by_read != by_yield {
            return fail(&v, format!("requests were offered out of arrival order: read {by_read:?}, yielded {by_yield:?}"));
        }
    } else if v.stream_err.is_none() && {
        let amb = v.tl.iter().filter(|t| t.read.is_some() && t.ambiguous_dup).count();
        v.adaptor_yields < nondup_read || v.adaptor_yields > nondup_read + amb
    } {
        return fail(&v, format!("execute() offered {} handler invocations for {} distinct requests read", v.adaptor_yields, nondup_read));
    }
    let mut classes: BTreeSet<&'static str> = BTreeSet::new();
    let dup = v.tl.iter().any(|t| t.dup_ignored);
    let reuse = run.insts.iter().enumerate().any(|(i, x)| x.kind == "reuse-completed" && v.tl[i].read.is_some() && !v.tl[i].dup_ignored);
    let mut comp: Vec<(usize, usize)> = v.tl.iter().enumerate().filter_map(|(i, t)| t.completed.as_ref().map(|c| (c.0, i))).collect();
    comp.sort();
    let out_of_order = comp.windows(2).any(|w| w[0].1 > w[1].1);
    if dup {
        classes.insert("dup-in-flight");
    }
    if reuse {
        classes.insert("id-reuse-after-completion");
    }
    if out_of_order {
        classes.insert("completion-out-of-order");
    }
    if sc.cfg.adaptor {
        classes.insert("adaptor-path");
    }
    if v.tl.iter().any(|t| matches!(t.end, Some(End::CancelRead { .. }))) {
        classes.insert("cancelled");
    }
    Ok(CaseOk { nontrivial: dup && reuse && out_of_order, classes: classes.into_iter().collect(), excluded_known: run.excluded_known })
}

// ------------------------------------------------------------------------------------------ C04

pub fn c04_profile() -> SProfile {
    SProfile {
        w_request: 24,
        w_cancel: 14,
        w_complete: 12,
        w_drophandler: 1,
        w_budget: 6,
        id_fresh: 6,
        id_wide: 2,
        id_dup: 1,
        id_reuse: 1,
        unknown_cancel: 0.25,
        limits: vec![None, None, Some(1), Some(2), Some(3)],
        independent: None,
        ..SProfile::default()
    }
}

/// in-flight probe agrees with the model at quiescence (raw path only)
fn in_flight_agrees(v: &SView, sc: &SScenario) -> Option<String> {
    if sc.cfg.adaptor || v.tainted_any {
        return None;
    }
    for q in &v.quiescent {
        if !q.probes.dispatch_alive {
            continue;
        }
        if let Some(n) = q.probes.server_in_flight {
            if n < q.lower || n > q.upper {
                return Some(format!(
                    "at quiescence (seq {}) the channel reports {n} requests in flight but the model (read, not answered/cancelled/expired/abandoned) says between {} and {}",
                    q.seq, q.lower, q.upper
                ));
            }
        }
    }
    None
}

pub fn c04_check(sc: &SScenario) -> CaseResult {
    let mut ops = sc.ops.clone();
    ops.push(SOp::Drain);
    ops.push(SOp::Budget { n: 255 });
    ops.push(SOp::Drain);
    let steer = !sc.ops.iter().any(|o| matches!(o, SOp::Marker(99)));
    let run = run_server(&sc.cfg, &ops, steer);
    let v = SView::new(&run);
    if let Some(m) = common(&v) {
        return fail(&v, m);
    }
    if let Some(m) = v.model_violations.first() {
        return fail(&v, format!("{m} (responses must not be transmitted for cancelled requests)"));
    }
    // a cancellation the peer has sent for a request still being processed must be acted upon even
    // while the response sink is not ready: at quiescence it may not sit unread behind a live channel
    {
        let mut sent: Vec<(usize, u64, usize)> = vec![]; // (seq, id, inst)
        let mut read_cancels: Vec<(usize, u64)> = vec![];
        for r in &run.recs {
            match &r.ev {
                Ev::Note { text } if text.starts_with("CancelSent") && !text.ends_with("inst=None") => {
                    let id: u64 = text.split_whitespace().find_map(|w| w.strip_prefix("id=")).and_then(|x| x.parse().ok()).unwrap_or(0);
                    let inst: usize = text.split("inst=Some(").nth(1).and_then(|x| x.trim_end_matches(')').parse().ok()).unwrap_or(usize::MAX);
                    sent.push((r.seq, id, inst));
                }
                Ev::Io { tr: 1, op: IoOp::Next, res: IoRes::Item(Msg::Cancel { id, .. }), .. } => read_cancels.push((r.seq, *id)),
                _ => {}
            }
        }
        for q in v.quiescent.iter().filter(|q| q.probes.dispatch_alive) {
            for (sseq, id, inst) in sent.iter().filter(|(s, _, _)| *s < q.seq) {
                let read = read_cancels.iter().any(|(rs, rid)| rid == id && rs > sseq && *rs < q.seq);
                if read || *inst >= v.tl.len() {
                    continue;
                }
                let t = &v.tl[*inst];
                let still_running = t.read.map_or(false, |r| r.0 < q.seq)
                    && t.end.as_ref().map_or(true, |e| e.seq() > q.seq)
                    && !t.ambiguous_dup;
                if still_running && (q.t_ns as i128) < run.insts[*inst].deadline_ns {
                    let region = sc.cfg.limit.map_or(false, |l| q.probes.server_in_flight.unwrap_or(0) >= l) && sink_blocked(q, sc.cfg.cap);
                    let viol = Violation::new(format!(
                        "the peer sent Cancel({id}) (seq {sseq}) for request instance {inst}, which is still being processed, but at quiescence (seq {}) the channel has not acted on it: the handler can still make progress and the request still counts as in flight{}",
                        q.seq,
                        if region { " (request limit reached and response sink not ready)" } else { "" }
                    ))
                    .with_detail(json!({"history_tail": v.tail(90)}));
                    return Err(if region { viol.with_sig("limiter-blocks-housekeeping") } else { viol });
                }
            }
        }
    }
    let mut hit_running = false;
    for (i, t) in v.tl.iter().enumerate() {
        if t.ambiguous_dup {
            continue;
        }
        let Some(End::CancelRead { seq: s, .. }) = &t.end else { continue };
        if let Some((pseq, _)) = t.polls.iter().find(|(p, _)| p > s) {
            return fail(&v, format!(
                "handler of request instance {i} (id {}) was polled at seq {pseq}, after the channel read its cancellation at seq {s}",
                run.insts[i].id
            ));
        }
        if let Some(st) = t.started.iter().find(|x| *x > s) {
            return fail(&v, format!("handler of request instance {i} was started at seq {st} after its cancellation was read at seq {s}"));
        }
        let running = !t.polls.is_empty() && t.polls[0].0 < *s && t.completed.as_ref().map_or(true, |c| c.0 > *s);
        if running {
            hit_running = true;
            if t.handler_dropped.is_none() && t.completed.is_none() {
                return fail(&v, format!("handler of cancelled request instance {i} was never dropped although its task was run to quiescence"));
            }
        }
    }
    if let Some(m) = in_flight_agrees(&v, sc) {
        return fail(&v, m);
    }
    if let Some(m) = v.spurious_abort() {
        return fail(&v, format!("{m} (a cancellation for another/unknown id must have no effect)"));
    }
    let mut classes: BTreeSet<&'static str> = BTreeSet::new();
    if hit_running {
        classes.insert("cancel-hit-running-handler");
    }
    if v.tl.iter().any(|t| matches!(&t.end, Some(End::CancelRead{seq,..}) if t.started.is_empty() || t.started[0] > *seq)) {
        classes.insert("cancel-before-handler-start");
    }
    if v.tl.iter().any(|t| matches!((&t.end, &t.completed), (Some(End::CancelRead{seq,..}), Some(c)) if c.0 < *seq)) {
        classes.insert("cancel-after-completion-before-write");
    }
    if run.recs.iter().any(|r| matches!(&r.ev, Ev::Note{text} if text.starts_with("CancelSent") && text.ends_with("inst=None"))) {
        classes.insert("cancel-unknown-or-finished-id");
    }
    if sc.cfg.limit.is_some() {
        classes.insert("with-limit");
    }
    Ok(CaseOk { nontrivial: hit_running, classes: classes.into_iter().collect(), excluded_known: run.excluded_known })
}

// ------------------------------------------------------------------------------------------ C06

pub fn c06_profile() -> SProfile {
    SProfile {
        w_request: 22,
        w_cancel: 3,
        w_complete: 14,
        w_drophandler: 1,
        w_advance: 6,
        w_advance_to: 14,
        w_budget: 5,
        id_fresh: 6,
        id_wide: 2,
        id_dup: 2,
        id_reuse: 1,
        dl_far: 2,
        dl_short: 12,
        dl_past: 2,
        dl_huge: 1,
        limits: vec![None, None, Some(1), Some(2), Some(4)],
        independent: None,
        ..SProfile::default()
    }
}

pub fn c06_check(sc: &SScenario) -> CaseResult {
    let mut ops = sc.ops.clone();
    ops.push(SOp::Drain);
    ops.push(SOp::Budget { n: 255 });
    ops.push(SOp::Drain);
    ops.push(SOp::AdvancePastDeadlines);
    ops.push(SOp::Drain);
    let steer = !sc.ops.iter().any(|o| matches!(o, SOp::Marker(99)));
    let run = run_server(&sc.cfg, &ops, steer);
    let v = SView::new(&run);
    if let Some(m) = common(&v) {
        return fail(&v, m);
    }
    if let Some(m) = v.model_violations.first() {
        return fail(&v, format!("{m} (nothing may be transmitted for an expired request)"));
    }
    if let Some(m) = v.spurious_abort() {
        return fail(&v, m);
    }
    if let Some(m) = v.late_responses.first() {
        if !v.tainted_any {
            return fail(&v, m.clone());
        }
    }
    let mut classes: BTreeSet<&'static str> = BTreeSet::new();
    let mut expired_insts = vec![];
    for (i, t) in v.tl.iter().enumerate() {
        let Some((_rseq, rt)) = t.read else { continue };
        if t.dup_ignored || t.ambiguous_dup || t.throttled {
            continue;
        }
        let d = run.insts[i].deadline_ns;
        let due = d.max(rt as i128) + GRAN_NS;
        // first quiescence with clock >= due while the channel is alive
        for q in v.quiescent.iter().filter(|q| q.probes.dispatch_alive && (q.t_ns as i128) >= due) {
            let ended_otherwise = match &t.end {
                Some(End::Expired { .. }) | None => false,
                Some(e) => e.seq() < q.seq,
            };
            if ended_otherwise {
                break;
            }
            let started = !t.started.is_empty() && t.started[0] < q.seq;
            let finished = t.completed.as_ref().map_or(false, |c| c.0 < q.seq);
            if started && !finished {
                if t.handler_dropped.map_or(true, |h| h.0 > q.seq) {
                    let region = sc.cfg.limit.map_or(false, |l| q.probes.server_in_flight.unwrap_or(0) >= l) && sink_blocked(q, sc.cfg.cap);
                    let viol = Violation::new(format!(
                        "at quiescence (seq {}, t={}ns) the handler of request instance {i} (id {}, deadline {d}ns, read at {rt}ns) is still alive more than a timer granule after its deadline{}",
                        q.seq, q.t_ns, run.insts[i].id,
                        if region { " (request limit reached and response sink not ready)" } else { "" }
                    ))
                    .with_detail(json!({"history_tail": v.tail(90)}));
                    return Err(if region { viol.with_sig("limiter-blocks-housekeeping") } else { viol });
                }
                expired_insts.push(i);
            }
            if let Some((p, _)) = t.polls.iter().find(|(p, _)| *p > q.seq) {
                return fail(&v, format!("handler of expired request instance {i} was polled at seq {p} after the quiescence at which it was due"));
            }
            break;
        }
        // completed in time => answered at the next writable quiescence that is still before the deadline
        if let Some((cseq, ct, _)) = &t.completed {
            if (*ct as i128) < d {
                for q in v.quiescent.iter().filter(|q| q.seq > *cseq) {
                    if !q.probes.dispatch_alive || (q.t_ns as i128) >= d {
                        break;
                    }
                    if sink_blocked(q, sc.cfg.cap) {
                        continue;
                    }
                    let cancelled = matches!(&t.end, Some(End::CancelRead { seq, .. }) | Some(End::InternalCancel { seq, .. }) | Some(End::ChannelDropped { seq }) if *seq < q.seq);
                    let env = t.env_dropped.map_or(false, |e| e.0 < q.seq);
                    if cancelled || env {
                        break;
                    }
                    match &t.end {
                        Some(End::Responded { seq, .. }) if *seq < q.seq => {
                            classes.insert("completed-in-time-and-answered");
                        }
                        _ => {
                            return fail(&v, format!(
                                "handler of request instance {i} (id {}) completed at t={ct}ns, before its deadline {d}ns, but at the writable quiescence seq {} (t={}ns, still before the deadline) no response had been transmitted",
                                run.insts[i].id, q.seq, q.t_ns
                            ));
                        }
                    }
                    break;
                }
                if (d - *ct as i128) <= 1_000_000 {
                    classes.insert("completion-within-1ms-of-deadline");
                }
            }
        }
    }
    let answered_after: bool = expired_insts.iter().any(|&e| {
        let et = v.tl[e].handler_dropped.map(|h| h.0).unwrap_or(0);
        v.tl.iter().enumerate().any(|(j, t)| j != e && run.insts[j].deadline_ns != run.insts[e].deadline_ns
            && matches!(&t.end, Some(End::Responded { seq, .. }) if *seq > et)
            && t.read.map_or(false, |r| r.0 < et))
    });
    if !expired_insts.is_empty() {
        classes.insert("handler-expired");
    }
    if answered_after {
        classes.insert("one-expired-while-another-completed-later");
    }
    if sc.cfg.limit.is_some() {
        classes.insert("with-limit");
    }
    let nontrivial = answered_after || classes.contains("completion-within-1ms-of-deadline");
    Ok(CaseOk { nontrivial, classes: classes.into_iter().collect(), excluded_known: run.excluded_known })
}

// ------------------------------------------------------------------------------------------ C12

pub fn c12_profile() -> SProfile {
    SProfile {
        w_request: 30,
        w_cancel: 8,
        w_complete: 16,
        w_drophandler: 1,
        w_advance: 2,
        w_advance_to: 3,
        w_budget: 5,
        w_cancel_then_request: 8,
        id_fresh: 8,
        id_wide: 2,
        id_dup: 1,
        id_reuse: 1,
        dl_far: 8,
        dl_short: 2,
        dl_past: 0,
        hold: 0.05,
        limits: vec![Some(0), Some(1), Some(1), Some(2), Some(3), Some(5)],
        independent: None,
        ..SProfile::default()
    }
}

pub fn c12_check(sc: &SScenario) -> CaseResult {
    let l = sc.cfg.limit.unwrap_or(usize::MAX);
    let mut ops = sc.ops.clone();
    ops.push(SOp::Drain);
    ops.push(SOp::Budget { n: 255 });
    ops.push(SOp::Drain);
    // strict sink: a throttle reply written without its own poll_ready is refused by the sink, as a bounded queue would
    let run = run_server_opts(&sc.cfg, &ops, true, true);
    let v = SView::new(&run);
    if let Some(m) = common(&v) {
        return fail(&v, m);
    }
    if let Some(m) = v.model_violations.first() {
        return fail(&v, m.clone());
    }
    if let Some((eseq, name)) = &v.stream_err {
        // no faults are injected in C12 scenarios: the sink only fails when it is written to while full
        return fail(&v, format!(
            "the channel failed with a {name} error (seq {eseq}) while throttling although the transport never failed on its own: a reply was written to a sink that had not reported readiness, so a refused request got no throttle response"
        ));
    }
    let mut admitted_after_cycle = false;
    let mut throttled_any = false;
    let mut went_up_and_down = false;
    let mut seen_full = false;
    let stream_over = v.stream_err.is_some() || v.stream_end_seq.is_some() || v.channel_dropped_seq.is_some();
    let mut order: Vec<(usize, usize)> = v.tl.iter().enumerate().filter_map(|(i, t)| t.read.map(|r| (r.0, i))).collect();
    order.sort();
    for (_, i) in order {
        let t = &v.tl[i];
        if t.dup_ignored || t.ambiguous_dup {
            if t.dup_ignored && (!t.yielded.is_empty() || matches!(t.end, Some(End::Responded { .. }))) {
                return fail(&v, format!("duplicate-in-flight request instance {i} was yielded or answered"));
            }
            continue;
        }
        let offered = if sc.cfg.adaptor { !t.started.is_empty() } else { !t.yielded.is_empty() };
        if t.upper_before >= l {
            seen_full = true;
        } else if seen_full {
            went_up_and_down = true;
        }
        if t.throttled {
            throttled_any = true;
            if offered {
                return fail(&v, format!("request instance {i} was answered with the throttle error and also handed to the application"));
            }
            if t.upper_before < l {
                return fail(&v, format!(
                    "request instance {i} (id {}) was refused with the throttle error although at most {} of {l} requests were in flight when it was read",
                    run.insts[i].id, t.upper_before
                ));
            }
        } else if offered {
            if t.lower_before >= l {
                return fail(&v, format!(
                    "request instance {i} (id {}) was handed to the application while {} requests (limit {l}) were certainly still in flight",
                    run.insts[i].id, t.lower_before
                ));
            }
            if went_up_and_down {
                admitted_after_cycle = true;
            }
        } else if !stream_over && !sc.cfg.adaptor {
            return fail(&v, format!(
                "request instance {i} (id {}) was read but neither handed to the application nor answered with the throttle error by the final quiescence",
                run.insts[i].id
            ));
        }
        if let Some(End::Responded { result: Err((k, d)), .. }) = &t.end {
            if d.contains("throttled") && k != "WouldBlock" {
                return fail(&v, format!("throttle response for request instance {i} has kind {k} instead of WouldBlock"));
            }
        }
    }
    // a throttle-like refusal with a wrong kind/text: a request never offered but answered with an error the handler did not produce
    for (i, t) in v.tl.iter().enumerate() {
        if t.ambiguous_dup {
            continue;
        }
        if let Some(End::Responded { result: Err((k, d)), .. }) = &t.end {
            if t.completed.is_none() && !t.throttled {
                return fail(&v, format!(
                    "request instance {i} was refused with error ({k}, {d:?}); a refusal must be kind WouldBlock with the text 'server throttled the request.'"
                ));
            }
        }
    }
    let mut classes: BTreeSet<&'static str> = BTreeSet::new();
    if throttled_any {
        classes.insert("throttled");
    }
    if admitted_after_cycle {
        classes.insert("admitted-after-count-went-up-and-down");
    }
    if l == 0 {
        classes.insert("limit-0");
    }
    Ok(CaseOk {
        nontrivial: throttled_any && admitted_after_cycle,
        classes: classes.into_iter().collect(),
        excluded_known: run.excluded_known,
    })
}

// ------------------------------------------------------------------------------------------ C09 (server)

pub fn c09s_profile() -> SProfile {
    SProfile {
        w_request: 24,
        w_cancel: 4,
        w_complete: 14,
        w_budget: 5,
        w_fault: 8,
        w_peerclose: 1,
        id_dup: 0,
        id_reuse: 0,
        limits: vec![None, None, Some(1), Some(2)],
        independent: None,
        ..SProfile::default()
    }
}

pub fn c09s_check(sc: &SScenario) -> CaseResult {
    let mut ops = sc.ops.clone();
    ops.push(SOp::Drain);
    ops.push(SOp::Budget { n: 255 });
    ops.push(SOp::Drain);
    ops.push(SOp::DropChannel);
    ops.push(SOp::Drain);
    let run = run_server(&sc.cfg, &ops, true);
    let v = SView::new(&run);
    if let Some(p) = v.first_panic() {
        return fail(&v, format!("a transport fault (or the run around it) caused a panic on the server: {p}"));
    }
    if run.livelock {
        return fail(&v, "livelock".into());
    }
    // first failing transport op
    let mut first: Option<(usize, &'static str)> = None;
    for r in &run.recs {
        if let Ev::Io { tr: 1, op, res, .. } = &r.ev {
            let t = match (op, res) {
                (IoOp::Ready, IoRes::Err) => Some("Ready"),
                (IoOp::Flush, IoRes::Err) => Some("Flush"),
                (IoOp::Close, IoRes::Err) => Some("Close"),
                (IoOp::Next, IoRes::ItemErr) => Some("Read"),
                (IoOp::Send, IoRes::Err) => Some("Write"),
                _ => None,
            };
            if let (Some(t), None) = (t, first) {
                first = Some((r.seq, t));
            }
        }
    }
    let mut classes: BTreeSet<&'static str> = BTreeSet::new();
    let mut nontrivial = false;
    if !sc.cfg.adaptor {
        match (&v.stream_err, first) {
            (Some((eseq, name)), Some((fseq, t))) => {
                if name != t {
                    return fail(&v, format!("the channel's stream reported an error naming {name:?} but the failed transport activity was {t:?}"));
                }
                if eseq < &fseq {
                    return fail(&v, "stream error reported before any transport failure".into());
                }
                // serving stops: no transport use after the error was reported (the harness stops polling like execute())
                if let Some(r) = run.recs.iter().find(|r| r.seq > *eseq && matches!(&r.ev, Ev::Io { tr: 1, .. })) {
                    return fail(&v, format!("transport used at seq {} after the stream reported its error", r.seq));
                }
                classes.insert(match t {
                    "Ready" => "server:fault-ready",
                    "Flush" => "server:fault-flush",
                    "Close" => "server:fault-close",
                    "Read" => "server:fault-read",
                    _ => "server:fault-write",
                });
                let in_stages = v.tl.iter().filter(|t| t.read.map_or(false, |r| r.0 < fseq) && t.end.as_ref().map_or(true, |e| e.seq() > fseq)).count();
                if in_stages >= 2 {
                    nontrivial = true;
                    classes.insert("server:fault-with>=2-requests-in-flight");
                }
            }
            (Some((_, name)), None) => {
                return fail(&v, format!("the channel's stream reported error {name:?} although no transport operation failed"));
            }
            (None, Some((fseq, t))) => {
                // the failure must surface at the latest at the next quiescence
                if v.quiescent.iter().any(|q| q.seq > fseq) && v.stream_end_seq.map_or(true, |s| s > fseq) {
                    return fail(&v, format!("transport failed during {t} (seq {fseq}) but the channel's stream never reported it"));
                }
            }
            (None, None) => {}
        }
    } else if let Some((fseq, _)) = first {
        // execute(): the stream ends at the first channel error
        if !run.stream_ended && v.quiescent.iter().any(|q| q.seq > fseq) {
            return fail(&v, "transport failed but the execute() stream did not end".into());
        }
        classes.insert("server:adaptor-fault");
    }
    // after the channel is dropped every unfinished handler is aborted at its next poll
    if let Some(ds) = v.channel_dropped_seq {
        for (i, t) in v.tl.iter().enumerate() {
            if !t.started.is_empty() && t.completed.is_none() && t.handler_dropped.is_none() {
                return fail(&v, format!("handler of request instance {i} is still alive after its channel was dropped (seq {ds}) and all tasks were run"));
            }
            if let Some((p, _)) = t.polls.iter().find(|(p, _)| *p > ds) {
                return fail(&v, format!("handler of request instance {i} was polled at seq {p} after its channel was dropped at seq {ds}"));
            }
        }
        if !run.alive_handler_tasks.is_empty() && !sc.cfg.adaptor {
            let held: Vec<usize> = run.alive_handler_tasks.clone();
            return fail(&v, format!("handler tasks {held:?} still pending after the channel was dropped and the system drained"));
        }
    }
    Ok(CaseOk { nontrivial, classes: classes.into_iter().collect(), excluded_known: run.excluded_known })
}

// ------------------------------------------------------------------------------------------ C10 (server)

pub fn c10s_profile() -> SProfile {
    SProfile {
        w_request: 24,
        w_cancel: 6,
        w_complete: 16,
        w_drophandler: 2,
        w_advance: 2,
        w_advance_to: 3,
        w_budget: 6,
        w_peerclose: 5,
        id_dup: 1,
        id_reuse: 1,
        dl_far: 8,
        dl_short: 2,
        hold: 0.1,
        limits: vec![None],
        independent: None,
        ..SProfile::default()
    }
}

pub fn c10s_check(sc: &SScenario) -> CaseResult {
    let mut ops = sc.ops.clone();
    ops.push(SOp::PeerClose);
    ops.push(SOp::Drain);
    ops.push(SOp::Budget { n: 255 });
    ops.push(SOp::StartAllHeld);
    ops.push(SOp::Drain);
    ops.push(SOp::CompleteAll);
    ops.push(SOp::Drain);
    let run = run_server(&sc.cfg, &ops, false);
    let v = SView::new(&run);
    if let Some(m) = common(&v) {
        return fail(&v, m);
    }
    if let Some(m) = v.model_violations.first() {
        return fail(&v, m.clone());
    }
    let Some(closed) = v.inbound_closed_seq else {
        return Ok(CaseOk::default());
    };
    let mut classes: BTreeSet<&'static str> = BTreeSet::new();
    let mut nontrivial = false;
    // the stream must not end while the model has an in-flight request
    if let Some(es) = v.stream_end_seq {
        for (i, t) in v.tl.iter().enumerate() {
            if t.dup_ignored || t.ambiguous_dup || t.read.is_none() {
                continue;
            }
            let in_flight_at_end = t.read.unwrap().0 < es
                && match &t.end {
                    None => true,
                    Some(End::Expired { .. }) => false, // may have expired earlier than the model's certain point
                    Some(e) => e.seq() > es,
                };
            let d = run.insts[i].deadline_ns;
            let end_t = run.recs[es].t_ns as i128;
            if in_flight_at_end && end_t < d {
                return fail(&v, format!(
                    "the channel's stream ended (seq {es}) while request instance {i} (id {}) was still in flight (not answered, cancelled, expired or abandoned)",
                    run.insts[i].id
                ));
            }
        }
        // every response completed before the end was written (and flushed) first
        for r in run.recs.iter().filter(|r| r.seq > es) {
            if let Ev::Io { tr: 1, op: IoOp::Send, .. } = &r.ev {
                return fail(&v, format!("a response was written at seq {} after the stream had ended at seq {es}", r.seq));
            }
        }
        classes.insert("server:stream-ended");
        // ... and only after everything written was flushed
        // (socket-like model only: in the bounded-queue model a flush completes while items are still queued)
        if let Some(q) = v.quiescent.iter().find(|q| q.seq > es && !sc.cfg.independent) {
            if q.probes.buffered > 0 {
                return fail(&v, format!(
                    "the channel's stream ended (seq {es}) while {} written response(s) were still unflushed in the transport",
                    q.probes.buffered
                ));
            }
        }
    }
    // it ends at the first quiescence at which inbound is closed, nothing is in flight and everything is flushed
    for q in v.quiescent.iter().filter(|q| q.seq > closed && !v.tainted_any) {
        let flushed = q.probes.buffered == 0;
        if q.upper == 0 && flushed && !sink_blocked(q, sc.cfg.cap) {
            if v.stream_end_seq.map_or(true, |s| s > q.seq) && v.stream_err.is_none() {
                return fail(&v, format!(
                    "inbound side closed (seq {closed}); at quiescence seq {} nothing is in flight and everything is flushed, but the channel's stream has not ended",
                    q.seq
                ));
            }
            break;
        }
    }
    // shutdown began with in-flight requests?
    let in_flight_at_close = v.tl.iter().filter(|t| t.read.map_or(false, |r| r.0 < closed) && !t.dup_ignored && t.end.as_ref().map_or(true, |e| e.seq() > closed)).count();
    if in_flight_at_close >= 1 {
        nontrivial = true;
        classes.insert("server:inbound-closed-with-requests-in-flight");
    }
    // handlers that completed after the close and before the end must have been answered
    if let Some(es) = v.stream_end_seq {
        for (i, t) in v.tl.iter().enumerate() {
            if t.ambiguous_dup {
                continue;
            }
            if let Some((cseq, ct, _)) = &t.completed {
                let d = run.insts[i].deadline_ns;
                let plain = t.env_dropped.is_none() && !matches!(t.end, Some(End::CancelRead { .. }) | Some(End::InternalCancel { .. }));
                if *cseq < es && plain && (*ct as i128) < d && (run.recs[es].t_ns as i128) < d {
                    if !matches!(t.end, Some(End::Responded { .. })) {
                        return fail(&v, format!("request instance {i} completed before the stream ended but no response was ever written for it"));
                    }
                    if *cseq > closed {
                        classes.insert("server:answered-after-inbound-closed");
                    }
                }
            }
        }
    }
    Ok(CaseOk { nontrivial, classes: classes.into_iter().collect(), excluded_known: run.excluded_known })
}

// ------------------------------------------------------------------------------------------ C11 (server)

pub fn c11s_profile() -> SProfile {
    SProfile {
        w_request: 26,
        w_cancel: 8,
        w_complete: 16,
        w_drophandler: 5,
        w_startheld: 3,
        w_dropheld: 4,
        w_advance: 3,
        w_advance_to: 5,
        w_budget: 4,
        max_ops: 250,
        id_dup: 1,
        id_reuse: 2,
        dl_far: 8,
        dl_short: 4,
        dl_past: 1,
        hold: 0.2,
        limits: vec![None],
        adaptor: Some(false),
        independent: None,
        ..SProfile::default()
    }
}

pub fn c11s_check(sc: &SScenario, drop_channel: bool) -> CaseResult {
    let mut ops = sc.ops.clone();
    ops.push(SOp::Drain);
    ops.push(SOp::Budget { n: 255 });
    ops.push(SOp::Drain);
    // end every yielded request by some route, clock stopped from here on
    ops.push(SOp::CompleteAll);
    ops.push(SOp::Drain);
    ops.push(SOp::Marker(1));
    for _ in 0..64 {
        ops.push(SOp::DropHeld { sel: 0 });
    }
    ops.push(SOp::Drain);
    ops.push(SOp::Marker(2));
    if drop_channel {
        ops.push(SOp::DropChannel);
    } else {
        ops.push(SOp::PeerClose);
    }
    ops.push(SOp::Drain);
    let run = run_server(&sc.cfg, &ops, false);
    let v = SView::new(&run);
    if let Some(m) = common(&v) {
        return fail(&v, m);
    }
    if let Some(m) = v.model_violations.first() {
        return fail(&v, m.clone());
    }
    if let Some(m) = in_flight_agrees(&v, sc) {
        return fail(&v, m);
    }
    // every observation: reported <= upper is covered at quiescences; timers == entries at quiescence
    for q in &v.quiescent {
        if !q.probes.dispatch_alive {
            continue;
        }
        if let (Some(n), Some(t)) = (q.probes.server_in_flight, q.probes.server_timers) {
            if n != t {
                return fail(&v, format!("at quiescence (seq {}) the channel tracks {n} requests but {t} deadline timers", q.seq));
            }
        }
    }
    // reclamation with the clock stopped: the quiescence after Marker(2)
    let m2 = run.recs.iter().position(|r| matches!(&r.ev, Ev::Env { op } if op == "Marker(2)")).unwrap_or(usize::MAX);
    let q = v.quiescent.iter().rev().find(|q| q.seq < m2);
    if let Some(q) = q {
        if q.probes.dispatch_alive && q.upper == 0 && !v.tainted_any {
            if q.probes.server_in_flight != Some(0) || q.probes.server_timers != Some(0) {
                return fail(&v, format!(
                    "every yielded request has ended (answered, cancelled, expired or abandoned) and the channel is idle (seq {}), but it still tracks {:?} requests and {:?} deadline timers without time having advanced",
                    q.seq, q.probes.server_in_flight, q.probes.server_timers
                ));
            }
            if !drop_channel && v.stream_err.is_none() {
                // PeerClose must end the stream immediately (no waiting for deadlines)
                if !run.stream_ended {
                    return fail(&v, "nothing is in flight and the clock is stopped, yet closing the inbound side did not end the channel's stream (a deadline timer is still pending)".into());
                }
            }
        }
    }
    let mut routes: BTreeSet<&'static str> = BTreeSet::new();
    for t in &v.tl {
        match &t.end {
            Some(End::Responded { .. }) => {
                routes.insert("server:route-response");
            }
            Some(End::CancelRead { .. }) => {
                routes.insert("server:route-cancel");
            }
            Some(End::Expired { .. }) => {
                routes.insert("server:route-expiry");
            }
            Some(End::InternalCancel { .. }) => {
                if t.started.is_empty() {
                    routes.insert("server:route-never-executed");
                } else {
                    routes.insert("server:route-handler-dropped-midway");
                }
            }
            Some(End::ChannelDropped { .. }) => {
                routes.insert("server:route-channel-dropped");
            }
            None => {}
        }
    }
    let nontrivial = routes.len() >= 3 && v.tl.iter().filter(|t| t.read.is_some()).count() >= 6;
    Ok(CaseOk { nontrivial, classes: routes.into_iter().collect(), excluded_known: run.excluded_known })
}

// ------------------------------------------------------------------------------------------ C14 (server)

pub fn c14s_profile() -> SProfile {
    SProfile {
        w_request: 26,
        w_cancel: 5,
        w_complete: 18,
        w_budget: 14,
        w_fault: 2,
        w_peerclose: 1,
        id_dup: 1,
        id_reuse: 1,
        limits: vec![None, Some(0), Some(1), Some(2)],
        independent: None,
        cap: 1..=3,
        ..SProfile::default()
    }
}

pub fn c14s_check(sc: &SScenario) -> CaseResult {
    let mut ops = sc.ops.clone();
    ops.push(SOp::Drain);
    ops.push(SOp::Budget { n: 255 });
    ops.push(SOp::Drain);
    ops.push(SOp::CompleteAll);
    ops.push(SOp::PeerClose);
    ops.push(SOp::Drain);
    let run = run_server(&sc.cfg, &ops, false);
    let v = SView::new(&run);
    match super::contract::check_contract(&run.recs, 1, 0, sc.cfg.independent, true) {
        Err(m) => fail(&v, format!("server channel: {m}")),
        Ok(st) => {
            if let Some((t, m)) = run.panics.first() {
                if m.contains("SIM-SPIN") {
                    return fail(&v, format!("server channel (task {t}) spun on a not-ready transport: {m}"));
                }
            }
            if run.livelock {
                return fail(&v, "server channel: livelock (never returns to idle)".into());
            }
            let mut classes = vec![];
            if st.not_ready_seen {
                classes.push("server:not-ready-seen");
            }
            classes.push(if sc.cfg.independent { "server:independent-model" } else { "server:coupled-model" });
            if sc.cfg.limit.is_some() {
                classes.push("server:with-limit");
            }
            if v.tl.iter().any(|t| t.throttled) {
                classes.push("server:throttle-reply-written");
            }
            let nontrivial = sc.cfg.cap == 1 && st.not_ready_seen && st.sends_after_not_ready >= 2;
            Ok(CaseOk { nontrivial, classes, excluded_known: run.excluded_known })
        }
    }
}

pub fn consumer_state_ok(s: TaskState) -> bool {
    matches!(s, TaskState::Alive | TaskState::Done | TaskState::Dropped)
}

#[allow(dead_code)]
fn _unused(m: &Msg) -> u64 {
    m.id()
}
