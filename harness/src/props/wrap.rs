//! Prop wrappers for properties that have a client part and a server part.

use super::cgen::CScenario;
use crate::sim::runner::{CaseResult, Prop, Tier, Work};
use proptest::prelude::*;
use serde::{Deserialize, Serialize};

#[derive(Clone, Debug, Serialize, Deserialize)]
pub enum Sc09 {
    Client { sc: CScenario, shutdown: bool },
}
pub struct C09;
impl Prop for C09 {
    type Scenario = Sc09;
    fn id(&self) -> &'static str {
        "C09"
    }
    fn rule(&self) -> String {
        "Client: config + up to 70 generated ops with faults armed on the k-th (k<12) call of each of poll_ready/start_send/poll_flush/poll_close/poll_next, end-of-stream at generated points, calls in every stage \
         (blocked on the buffer, queued, in flight, replied-but-unread) and a fresh call after the failure. Oracle: dispatch result names the failed activity (Write only for a failed cancel write); no transport use after a terminal failure; \
         a failed request write yields Send for exactly that call; every call outstanding at the failure resolves by the next quiescence with Channel(same activity) or Shutdown unless its reply was handed over / deadline passed; \
         success only with a matching reply; later calls fail at the next quiescence; no panic. Non-trivial = a terminal fault fired with calls in >=2 different stages; distinct = distinct scenario JSON."
            .into()
    }
    fn work(&self, tier: Tier) -> Work {
        match tier {
            Tier::Quick => Work { cases_per_worker: 2000, workers: 8 },
            Tier::Thorough => Work { cases_per_worker: 40_000, workers: 16 },
        }
    }
    fn strategy(&self, _tier: Tier) -> BoxedStrategy<Sc09> {
        (super::c09::strategy_client(), proptest::bool::weighted(0.3))
            .prop_map(|(sc, shutdown)| Sc09::Client { sc, shutdown })
            .boxed()
    }
    fn run_case(&self, sc: &Sc09) -> CaseResult {
        match sc {
            Sc09::Client { sc, shutdown } => super::c09::check_client(sc, *shutdown),
        }
    }
}

#[derive(Clone, Debug, Serialize, Deserialize)]
pub enum Sc10 {
    Client(CScenario),
}
pub struct C10;
impl Prop for C10 {
    type Scenario = Sc10;
    fn id(&self) -> &'static str {
        "C10"
    }
    fn rule(&self) -> String {
        "Client: config + up to 60 generated ops (calls, abandonments with yields inside the drop, handle clones/drops, write budget blocked, poll_close pending n times, peer close) followed by: abandon all, drop all handles, one dispatch step, make writable, drain. \
         Oracle: dispatch returns Ok(()); on the handle-drop path poll_close is called and completes, every cancellation owed (abandoned, on the wire, not excused by response/deadline/write failure) is written before the first poll_close, nothing is written after it; \
         on the peer-close path the dispatch has ended by the next quiescence and no call is left pending. Non-trivial = shutdown began with queued cancellations, or peer close with outstanding calls; distinct = distinct scenario JSON."
            .into()
    }
    fn work(&self, tier: Tier) -> Work {
        match tier {
            Tier::Quick => Work { cases_per_worker: 2000, workers: 8 },
            Tier::Thorough => Work { cases_per_worker: 30_000, workers: 16 },
        }
    }
    fn strategy(&self, _tier: Tier) -> BoxedStrategy<Sc10> {
        super::c10::strategy_client().prop_map(Sc10::Client).boxed()
    }
    fn run_case(&self, sc: &Sc10) -> CaseResult {
        match sc {
            Sc10::Client(c) => super::c10::check_client(c),
        }
    }
}

#[derive(Clone, Debug, Serialize, Deserialize)]
pub enum Sc11 {
    Client { sc: CScenario, send_fault: Option<u8> },
}
pub struct C11;
impl Prop for C11 {
    type Scenario = Sc11;
    fn id(&self) -> &'static str {
        "C11"
    }
    fn rule(&self) -> String {
        "Client: config (max_in_flight 1-4 so slots are reused) + up to 300 generated ops using every removal route (reply, abandonment+cancel, expiry, request write failure on the k-th start_send), then with the clock stopped: answer everything, abandon the rest, drain, drop handles, drain. \
         Oracle: at each request write fewer than max_in_flight earlier requests are certainly still in flight (wire model); at every quiescence hook H2 reports entries == timers and lower <= entries <= upper of the wire model; \
         once all calls ended the client tracks 0 requests and 0 timers without advancing time and the dispatch completes as soon as the handles are dropped. Non-trivial = >=3 removal routes and >= 2*max_in_flight requests transmitted; distinct = distinct scenario JSON."
            .into()
    }
    fn work(&self, tier: Tier) -> Work {
        match tier {
            Tier::Quick => Work { cases_per_worker: 600, workers: 8 },
            Tier::Thorough => Work { cases_per_worker: 20_000, workers: 16 },
        }
    }
    fn strategy(&self, _tier: Tier) -> BoxedStrategy<Sc11> {
        (super::c11::strategy_client(), proptest::option::weighted(0.3, 0u8..40))
            .prop_map(|(sc, send_fault)| Sc11::Client { sc, send_fault })
            .boxed()
    }
    fn run_case(&self, sc: &Sc11) -> CaseResult {
        match sc {
            Sc11::Client { sc, send_fault } => super::c11::check_client(sc, *send_fault),
        }
    }
}
