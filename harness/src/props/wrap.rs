//! Prop wrappers for properties that have a client part and a server part.

use super::cgen::CScenario;
use super::sgen::{scenario_strategy as sstrat, SScenario};
use super::sprops;
use crate::sim::runner::{CaseResult, Prop, Tier, Work};
use proptest::prelude::*;
use serde::{Deserialize, Serialize};

#[derive(Clone, Debug, Serialize, Deserialize)]
pub enum Sc09 {
    Client { sc: CScenario, shutdown: bool },
    Server(SScenario),
}
pub struct C09;
impl Prop for C09 {
    type Scenario = Sc09;
    fn id(&self) -> &'static str {
        "C09"
    }
    fn rule(&self) -> String {
        "Client: config + up to 70 generated ops with faults armed on the k-th (k<12) call of each of poll_ready/start_send/poll_flush/poll_close/poll_next, end-of-stream at generated points, calls in every stage \
         (blocked on the buffer, queued, in flight, replied-but-unread) and a fresh call after the failure. Oracle: dispatch result names the failed activity (Write only for a failed cancel write); no transport use after a terminal failure; \
         a failed request write yields Send for exactly that call; every call outstanding at the failure resolves by the next quiescence with Channel(same activity) or Shutdown unless its reply was handed over / deadline passed; \
         success only with a matching reply; later calls fail at the next quiescence; no panic. \
         Server: BaseChannel (with/without request limit, both paths) with the same fault injection; oracle: the request stream yields an error naming the failed activity (execute(): the stream ends), no transport use afterwards, \
         after the channel is dropped every unfinished handler is aborted and never polled again, no panic. Non-trivial = a terminal fault fired with calls in >=2 different stages; distinct = distinct scenario JSON."
            .into()
    }
    fn work(&self, tier: Tier) -> Work {
        match tier {
            Tier::Quick => Work { cases_per_worker: 10000, workers: 8 },
            Tier::Thorough => Work { cases_per_worker: 160000, workers: 16 },
        }
    }
    fn strategy(&self, _tier: Tier) -> BoxedStrategy<Sc09> {
        prop_oneof![
            3 => (super::c09::strategy_client(), proptest::bool::weighted(0.3))
                .prop_map(|(sc, shutdown)| Sc09::Client { sc, shutdown }),
            2 => sstrat(&sprops::c09s_profile()).prop_map(Sc09::Server),
        ]
        .boxed()
    }
    fn run_case(&self, sc: &Sc09) -> CaseResult {
        match sc {
            Sc09::Client { sc, shutdown } => super::c09::check_client(sc, *shutdown),
            Sc09::Server(sc) => sprops::c09s_check(sc),
        }
    }
}

#[derive(Clone, Debug, Serialize, Deserialize)]
pub enum Sc10 {
    Client(CScenario),
    Server(SScenario),
    /// client shutdown whose first dispatch poll after the last handle drop runs on a nearly exhausted
    /// cooperative-scheduling budget
    ClientCoop { sc: CScenario, budget: u8 },
    /// the raw BaseChannel stream/sink against the exact model (props/rawchan.rs)
    Raw(super::rawchan::RawScenario),
}
pub struct C10;
impl Prop for C10 {
    type Scenario = Sc10;
    fn id(&self) -> &'static str {
        "C10"
    }
    fn rule(&self) -> String {
        "Client: config + up to 60 generated ops (calls, abandonments with yields inside the drop, handle clones/drops, write budget blocked, poll_close pending n times, peer close) followed by: abandon all, drop all handles, one dispatch step, make writable, drain. \
         Oracle: dispatch returns Ok(()); on the handle-drop path poll_close is called and completes, every cancellation owed (abandoned, on the wire, not excused by response/deadline/write failure) is written before the first poll_close, nothing is written after it; \
         on the peer-close path the dispatch has ended by the next quiescence and no call is left pending. \
         Server: inbound end-of-stream at a generated point with requests in flight, handlers completing in any order, cancels/expiries/handler drops, sink blocked for stretches; oracle: the request stream does not end while the model has an in-flight request, \
         no response is written after it ended, every handler that completed in time was answered, and the stream ends at the first quiescence with inbound closed, nothing in flight and everything flushed. \
         Raw channel: BaseChannel polled directly as a Stream and answered through its Sink (no Requests in between) against an exact model of the tracked set: the stream returns None exactly when inbound is closed and nothing is tracked, Pending otherwise, and external input wakes it. Non-trivial = shutdown began with queued cancellations, or peer close with outstanding calls; distinct = distinct scenario JSON."
            .into()
    }
    fn work(&self, tier: Tier) -> Work {
        match tier {
            Tier::Quick => Work { cases_per_worker: 10000, workers: 8 },
            Tier::Thorough => Work { cases_per_worker: 120000, workers: 16 },
        }
    }
    fn strategy(&self, _tier: Tier) -> BoxedStrategy<Sc10> {
        prop_oneof![
            3 => super::c10::strategy_client().prop_map(Sc10::Client),
            4 => sstrat(&sprops::c10s_profile()).prop_map(Sc10::Server),
            1 => (super::c10::strategy_client(), 0u8..6).prop_map(|(sc, budget)| Sc10::ClientCoop { sc, budget }),
            2 => super::rawchan::strategy().prop_map(Sc10::Raw),
        ]
        .boxed()
    }
    fn run_case(&self, sc: &Sc10) -> CaseResult {
        match sc {
            Sc10::Client(c) => super::c10::check_client(c),
            Sc10::ClientCoop { sc, budget } => super::c10::check_client_opt(sc, Some(*budget)),
            Sc10::Server(sc) => sprops::c10s_check(sc),
            Sc10::Raw(sc) => super::rawchan::check_for("C10", sc),
        }
    }
}

#[derive(Clone, Debug, Serialize, Deserialize)]
pub enum Sc11 {
    Client { sc: CScenario, send_fault: Option<u8> },
    Server { sc: SScenario, drop_channel: bool },
    Raw(super::rawchan::RawScenario),
}
pub struct C11;
impl Prop for C11 {
    type Scenario = Sc11;
    fn id(&self) -> &'static str {
        "C11"
    }
    fn rule(&self) -> String {
        "Client: config (max_in_flight 1-4 so slots are reused) + up to 300 generated ops using every removal route (reply, abandonment+cancel, expiry, request write failure on the k-th start_send), then with the clock stopped: answer everything, abandon the rest, drain, drop handles, drain. \
         Oracle: at each request write fewer than max_in_flight earlier requests are certainly still in flight (wire model); at every quiescence hook H2 reports entries == timers and lower <= entries <= upper of the wire model; \
         once all calls ended the client tracks 0 requests and 0 timers without advancing time and the dispatch completes as soon as the handles are dropped. \
         Server (no limiter, raw Requests path): up to 250 ops ending requests by response, cancel, expiry, handler dropped midway, request never executed, channel dropped; oracle: in_flight_requests() within the model's [lower, upper] and timers == entries at every quiescence; \
         after every yielded request has ended, 0 entries and 0 timers with the clock stopped, and closing the inbound side ends the stream immediately. \
         Raw channel (BaseChannel as Stream + Sink, exact model): in_flight_requests() and the number of deadline timers equal the model's tracked set after every poll and every start_send. Non-trivial = >=3 removal routes and >= 2*max_in_flight requests transmitted; distinct = distinct scenario JSON."
            .into()
    }
    fn work(&self, tier: Tier) -> Work {
        match tier {
            Tier::Quick => Work { cases_per_worker: 3000, workers: 8 },
            Tier::Thorough => Work { cases_per_worker: 80000, workers: 16 },
        }
    }
    fn strategy(&self, _tier: Tier) -> BoxedStrategy<Sc11> {
        prop_oneof![
            3 => (super::c11::strategy_client(), proptest::option::weighted(0.3, 0u8..40))
                .prop_map(|(sc, send_fault)| Sc11::Client { sc, send_fault }),
            3 => (sstrat(&sprops::c11s_profile()), proptest::bool::weighted(0.2))
                .prop_map(|(sc, drop_channel)| Sc11::Server { sc, drop_channel }),
            1 => super::rawchan::strategy().prop_map(Sc11::Raw),
        ]
        .boxed()
    }
    fn run_case(&self, sc: &Sc11) -> CaseResult {
        match sc {
            Sc11::Client { sc, send_fault } => super::c11::check_client(sc, *send_fault),
            Sc11::Server { sc, drop_channel } => sprops::c11s_check(sc, *drop_channel),
            Sc11::Raw(sc) => super::rawchan::check_for("C11", sc),
        }
    }
}

/// Scenario of the single-channel server properties: a server-engine scenario (the shape of every
/// existing replay/regression file) or, for the properties that opt in, a raw-channel scenario.
#[derive(Clone, Debug, Serialize, Deserialize)]
#[serde(untagged)]
pub enum ScS {
    Raw { raw: super::rawchan::RawScenario },
    Server(SScenario),
}

macro_rules! server_prop {
    ($name:ident, $id:expr, $prof:path, $check:path, $quick:expr, $thorough:expr, $rule:expr) => {
        server_prop!($name, $id, $prof, $check, $quick, $thorough, $rule, Vec::new, 0);
    };
    ($name:ident, $id:expr, $prof:path, $check:path, $quick:expr, $thorough:expr, $rule:expr, $probes:expr) => {
        server_prop!($name, $id, $prof, $check, $quick, $thorough, $rule, $probes, 0);
    };
    ($name:ident, $id:expr, $prof:path, $check:path, $quick:expr, $thorough:expr, $rule:expr, $probes:expr, $raw_weight:expr) => {
        pub struct $name;
        impl Prop for $name {
            type Scenario = ScS;
            fn id(&self) -> &'static str {
                $id
            }
            fn rule(&self) -> String {
                $rule.into()
            }
            fn work(&self, tier: Tier) -> Work {
                match tier {
                    Tier::Quick => Work { cases_per_worker: $quick, workers: 8 },
                    Tier::Thorough => Work { cases_per_worker: $thorough, workers: 16 },
                }
            }
            fn strategy(&self, _tier: Tier) -> BoxedStrategy<ScS> {
                if $raw_weight == 0 {
                    sstrat(&$prof()).prop_map(ScS::Server).boxed()
                } else {
                    prop_oneof![
                        6 => sstrat(&$prof()).prop_map(ScS::Server),
                        $raw_weight => super::rawchan::strategy().prop_map(|raw| ScS::Raw { raw }),
                    ]
                    .boxed()
                }
            }
            fn run_case(&self, sc: &ScS) -> CaseResult {
                match sc {
                    ScS::Server(sc) => $check(sc),
                    ScS::Raw { raw } => super::rawchan::check_for($id, raw),
                }
            }
            fn probes(&self) -> Vec<(String, String, ScS)> {
                let p: Vec<(String, String, SScenario)> = $probes();
                p.into_iter().map(|(a, b, c)| (a, b, ScS::Server(c))).collect()
            }
        }
    };
}

fn c06_probes() -> Vec<(String, String, SScenario)> {
    vec![(
        "limiter-blocks-housekeeping".into(),
        "max_concurrent_requests(1), request A in flight, a throttle reply stuck in a not-ready sink: A's deadline passes but its handler is not aborted until the sink becomes ready".into(),
        f6_probe(false),
    )]
}

server_prop!(C08, "C08", sprops::c08_profile, sprops::c08_check, 10000, 120000,
    "Scenario = server channel config (no limiter; raw Requests path or execute() adaptor; response buffer 1-4; transport cap 1-3, both readiness models) + up to 70 generated ops: requests with fresh small ids, fresh 64-bit ids, \
     ids duplicating an in-flight request, ids reused after their response was written; cancels (incl. unknown ids), handler completions in generated order, handlers dropped, sink blocked, peer close, channel drop. \
     Oracle: reference model of read-and-unanswered ids: each non-duplicate request read is offered exactly once, in arrival order; duplicates-in-flight are ignored; every Response written bears an id that is read-and-unanswered at that moment (so at most one per request, none after cancel/expiry), \
     only after its handler completed and with that handler's result. Raw channel (one case in four; BaseChannel as Stream + Sink against an exact model, ids drawn from a space of 8 so duplicates and reuse - also after cancel or expiry, exact here because no handler guard exists - are frequent): \
     every poll_next result is predicted (yield of exactly the next unread non-duplicate request, Pending, or end), and start_send(Response) hands an item to the transport iff the id is tracked. \
     Non-trivial = a duplicate-in-flight and an id reuse both occurred and >=2 handlers completed out of order; distinct = distinct scenario JSON.", Vec::new, 2);

server_prop!(C06, "C06", sprops::c06_profile, sprops::c06_check, 10000, 120000,
    "Scenario = server channel config (limit none/1/2/4, both paths, both readiness models) + up to 70 generated ops under virtual time: 1-6 concurrent requests with deadlines already expired, 0, us..minutes, days..2.1y; \
     clock steps landing on deadline-1ms/deadline/+1ms/+2ms; handlers completed before/at/after their deadline; sink blocked for stretches (finding F6 region steered around and counted). \
     Oracle: no handler is dropped unfinished before its deadline without a cancel/application drop/channel drop; at the first quiescence >= max(D, read time)+2ms the handler is gone and never polled again; nothing is written for an expired request; \
     a handler that completed before D is answered at the next writable quiescence before D. Raw channel (one case in four; BaseChannel as Stream + Sink against an exact model): a request's abort registration fires at the first poll >= max(D, read)+2 ms and never at a poll before D, the idle channel is woken by the timer, a response offered after expiry hands nothing to the transport. \
     Non-trivial = one request expired while another with a different deadline was answered later, or a completion within 1 ms of its deadline; distinct = distinct scenario JSON.",
    c06_probes, 2);

server_prop!(C12, "C12", sprops::c12_profile, sprops::c12_check, 10000, 120000,
    "Scenario = server channel behind max_concurrent_requests(L), L in {0,1,2,3,5}, + up to 70 generated ops: bursts larger than L, cancels, a Cancel immediately followed by a fresh request before one poll, completions and response writes in any order, sink blocked for stretches, duplicates-in-flight. \
     Oracle: reference model of the in-flight set kept as [lower, upper] (expiry within 2 ms of a read is the only uncertainty): a request is handed to the application only if lower < L when it was read; it is refused only if upper >= L at that moment; \
     a refusal is exactly one Response with kind WouldBlock and the documented text and no handler; every read request gets one of the two. Non-trivial = a throttled and an admitted request both occurred after the count had reached L and dropped again; distinct = distinct scenario JSON.");

#[derive(Clone, Debug, Serialize, Deserialize)]
pub enum Sc04 {
    Server(SScenario),
    Chain(super::chprops::ChScenario),
    Raw(super::rawchan::RawScenario),
}
pub struct C04;
impl Prop for C04 {
    type Scenario = Sc04;
    fn id(&self) -> &'static str {
        "C04"
    }
    fn rule(&self) -> String {
        "Single channel: server config (limit none/1/2/3, both paths) + up to 70 generated ops with cancels placed before handler start, mid-handler, after completion but before the response is written, after it is written, for unknown and finished ids; several concurrent requests; sink blocked for stretches \
         (finding F6 region steered around and counted). Oracle: after the poll in which the channel read Cancel(id) for a tracked id the handler's inner future is never polled or started again, it is observed dropped, no Response(id) is written (reference model of read-and-unanswered ids), \
         in_flight_requests() agrees with the model at every quiescence, and no other handler is aborted without cause. \
         Cascade: chains of 1-3 real client->server hops (shipped in-memory channel, serde+JSON, serde+bincode over byte pipes) whose handlers call the next hop with their context; the head call is abandoned at a generated point; at quiescence every hop's unanswered request is followed by a Cancel and no handler of the abandoned call is left alive. \
         Raw channel (BaseChannel as Stream + Sink, exact model): a Cancel read for a tracked id sets that request's abort registration, removes it from the count, and a later start_send(Response) for it hands nothing to the transport; cancels for untracked ids change nothing. \
         Non-trivial = a cancel hit a handler that had been polled and not completed, or (cascade) depth >= 2 with an unfinished leaf handler; distinct = distinct scenario JSON."
            .into()
    }
    fn work(&self, tier: Tier) -> Work {
        match tier {
            Tier::Quick => Work { cases_per_worker: 10000, workers: 8 },
            Tier::Thorough => Work { cases_per_worker: 120000, workers: 16 },
        }
    }
    fn strategy(&self, _tier: Tier) -> BoxedStrategy<Sc04> {
        prop_oneof![
            3 => sstrat(&sprops::c04_profile()).prop_map(Sc04::Server),
            2 => super::chprops::strategy(&super::chprops::c04c_profile()).prop_map(Sc04::Chain),
            1 => super::rawchan::strategy().prop_map(Sc04::Raw),
        ]
        .boxed()
    }
    fn run_case(&self, sc: &Sc04) -> CaseResult {
        match sc {
            Sc04::Server(s) => sprops::c04_check(s),
            Sc04::Chain(c) => super::chprops::c04c_check(c),
            Sc04::Raw(c) => super::rawchan::check_for("C04", c),
        }
    }
    fn probes(&self) -> Vec<(String, String, Sc04)> {
        vec![(
            "limiter-blocks-housekeeping".into(),
            "max_concurrent_requests(1), request A in flight, a throttle reply stuck in a not-ready sink: the peer's Cancel(A) is not acted upon until the sink becomes ready".into(),
            Sc04::Server(f6_probe(true)),
        )]
    }
}

#[derive(Clone, Debug, Serialize, Deserialize)]
pub enum Sc07 {
    Chain(super::chprops::ChScenario),
    NoDeadlineJson { transit_us: u64, id: u64, body: u64 },
}
pub struct C07;
impl Prop for C07 {
    type Scenario = Sc07;
    fn id(&self) -> &'static str {
        "C07"
    }
    fn rule(&self) -> String {
        "Scenario = chain of 1-3 real client->server hops over the shipped in-memory channel, serde+JSON or serde+bincode on byte pipes; each handler calls the next hop with the context it was given; calls with remaining time from already-expired/0 to hours; \
         virtual clock advances between a request's serialisation (start_send, t_s) and its deserialisation (the receiving poll_next, t_r) produce transit delays of 0..seconds per hop; one run in four installs an OpenTelemetry layer. A second scenario kind feeds a hand-built JSON frame whose context omits `deadline`. \
         Oracle (exact under virtual time): the request is written with the caller's deadline; handler-observed D' satisfies D <= D' <= D + (t_r - t_s) for unexpired D, D' = t_r for an expired one, D' = D in memory; never beyond the original deadline plus accumulated transit; no decode error; \
         with the OTel layer context::current().deadline inside the handler equals the context argument; omitted deadline => decode time + 10 s. Non-trivial = >=2 hops with non-zero transit delay, or an expired deadline, or an omitted deadline; distinct = distinct scenario JSON."
            .into()
    }
    fn work(&self, tier: Tier) -> Work {
        match tier {
            Tier::Quick => Work { cases_per_worker: 7500, workers: 8 },
            Tier::Thorough => Work { cases_per_worker: 80000, workers: 16 },
        }
    }
    fn strategy(&self, _tier: Tier) -> BoxedStrategy<Sc07> {
        prop_oneof![
            12 => super::chprops::strategy(&super::chprops::c07_profile()).prop_map(Sc07::Chain),
            1 => (prop_oneof![Just(0u64), 0u64..5_000_000], prop_oneof![Just(0u64), Just(u64::MAX), any::<u64>()], any::<u64>())
                .prop_map(|(transit_us, id, body)| Sc07::NoDeadlineJson { transit_us, id, body }),
        ]
        .boxed()
    }
    fn run_case(&self, sc: &Sc07) -> CaseResult {
        match sc {
            Sc07::Chain(c) => super::chprops::c07_check(c),
            Sc07::NoDeadlineJson { transit_us, id, body } => super::chprops::c07_no_deadline(*transit_us, *id, *body),
        }
    }
}

pub struct C18;
impl Prop for C18 {
    type Scenario = super::chprops::ChScenario;
    fn id(&self) -> &'static str {
        "C18"
    }
    fn rule(&self) -> String {
        "Scenario = chain of 1-3 real hops (in-memory, JSON, bincode) with 1-8 concurrent head calls carrying pairwise distinct caller-supplied trace ids and both sampling decisions, abandonments at generated points (cancels travel down the chain), generated scheduling; \
         no subscriber in three runs of four, an OpenTelemetry layer in the fourth (hop-to-hop equalities only). Oracle: per call and hop the Request's trace id and sampling decision = what that hop's handler observes = what the next hop's Request carries; \
         caller, wire and handler span ids along a call are pairwise different; a Cancel's trace context equals its Request's field for field; without a subscriber the transmitted trace id/sampling are the caller's and distinct calls keep distinct trace ids. \
         Non-trivial = >=3 concurrent calls with >=1 cancel on the wire, or depth >= 2; distinct = distinct scenario JSON."
            .into()
    }
    fn work(&self, tier: Tier) -> Work {
        match tier {
            Tier::Quick => Work { cases_per_worker: 7500, workers: 8 },
            Tier::Thorough => Work { cases_per_worker: 80000, workers: 16 },
        }
    }
    fn strategy(&self, _tier: Tier) -> BoxedStrategy<Self::Scenario> {
        super::chprops::strategy(&super::chprops::c18_profile())
    }
    fn run_case(&self, sc: &Self::Scenario) -> CaseResult {
        super::chprops::c18_check(sc)
    }
}

/// Deterministic reproduction of finding F6 (no steering): limit 1, cap-1 sink blocked, A in flight,
/// B throttled (its reply fills the sink), then either Cancel(A) or A's deadline passing.
pub fn f6_probe(cancel: bool) -> SScenario {
    use crate::engines::client::Dl;
    use crate::engines::server::{IdKind, SOp, ServerCfg};
    let mut ops = vec![
        SOp::Marker(99),
        SOp::Budget { n: 0 },
        SOp::SendRequest { idk: IdKind::Fresh, dl: if cancel { Dl::InSecs(3600) } else { Dl::InUs(50_000) }, trace: 0, sampled: false, hold: false },
        SOp::Drain,
        SOp::SendRequest { idk: IdKind::Fresh, dl: Dl::InSecs(3600), trace: 0, sampled: false, hold: false },
        SOp::Drain,
    ];
    if cancel {
        ops.push(SOp::SendCancel { sel: 0, unknown: None });
    } else {
        ops.push(SOp::Advance { us: 60_000 });
    }
    ops.push(SOp::Drain);
    SScenario { cfg: ServerCfg { limit: Some(1), resp_buffer: 1, independent: false, cap: 1, adaptor: false, subscriber: 0 }, ops }
}
