//! Generators for client-engine scenarios. A profile gives per-op weights; everything is built by
//! construction (selectors are mapped onto valid candidates at interpretation time).

use crate::engines::client::{COp, ClientCfg, Dl};
use proptest::prelude::*;
use serde::{Deserialize, Serialize};

#[derive(Clone, Debug, Serialize, Deserialize, PartialEq, Eq)]
pub struct CScenario {
    pub cfg: ClientCfg,
    pub ops: Vec<COp>,
}

#[derive(Clone, Debug)]
pub struct CProfile {
    pub w_step: u32,
    /// steps polled with a nearly exhausted cooperative-scheduling budget (COp::StepCoop)
    pub w_stepcoop: u32,
    pub w_drain: u32,
    pub w_newcall: u32,
    pub w_reply: u32,
    pub w_dup: u32,
    pub w_unknown: u32,
    pub w_dropcall: u32,
    pub w_clone: u32,
    pub w_drophandle: u32,
    pub w_advance: u32,
    pub w_advance_to: u32,
    pub w_budget: u32,
    pub w_fault: u32,
    pub w_peerclose: u32,
    pub w_closepending: u32,
    pub max_ops: usize,
    /// weights: far (hours), short (0..60ms), past
    pub dl_far: u32,
    pub dl_short: u32,
    pub dl_past: u32,
    /// weight of very long deadlines (days .. ~2.1 years, below the timer wheel's range)
    pub dl_huge: u32,
    pub yields: bool,
    pub max_in_flight: std::ops::RangeInclusive<usize>,
    pub buffer: std::ops::RangeInclusive<usize>,
    pub cap: std::ops::RangeInclusive<usize>,
    /// None = both models
    pub independent: Option<bool>,
    pub subscribers: Vec<u8>,
}

impl Default for CProfile {
    fn default() -> Self {
        CProfile {
            w_step: 30,
            w_stepcoop: 0,
            w_drain: 8,
            w_newcall: 20,
            w_reply: 15,
            w_dup: 3,
            w_unknown: 3,
            w_dropcall: 6,
            w_clone: 2,
            w_drophandle: 1,
            w_advance: 4,
            w_advance_to: 2,
            w_budget: 0,
            w_fault: 0,
            w_peerclose: 0,
            w_closepending: 0,
            max_ops: 80,
            dl_far: 8,
            dl_short: 2,
            dl_past: 1,
            dl_huge: 0,
            yields: false,
            max_in_flight: 1..=6,
            buffer: 1..=4,
            cap: 1..=3,
            independent: Some(false),
            subscribers: vec![0],
        }
    }
}

pub fn dl_strategy(p: &CProfile) -> BoxedStrategy<Dl> {
    let mut v: Vec<(u32, BoxedStrategy<Dl>)> = vec![];
    if p.dl_far > 0 {
        v.push((p.dl_far, (3600u64..200_000).prop_map(Dl::InSecs).boxed()));
    }
    if p.dl_short > 0 {
        v.push((
            p.dl_short,
            prop_oneof![
                (0u64..60_000).prop_map(Dl::InUs),
                (0u64..60).prop_map(|ms| Dl::InUs(ms * 1000)),
                Just(Dl::InUs(0)),
            ]
            .boxed(),
        ));
    }
    if p.dl_huge > 0 {
        v.push((
            p.dl_huge,
            prop_oneof![
                (86_400u64..40 * 86_400).prop_map(Dl::InSecs),
                (300 * 86_400u64..66_000_000).prop_map(Dl::InSecs),
                Just(Dl::InSecs(66_000_000)),
            ]
            .boxed(),
        ));
    }
    if p.dl_past > 0 {
        v.push((p.dl_past, (0u64..5_000_000).prop_map(Dl::PastUs).boxed()));
    }
    proptest::strategy::Union::new_weighted(v).boxed()
}

pub fn op_strategy(p: &CProfile) -> BoxedStrategy<COp> {
    let mut v: Vec<(u32, BoxedStrategy<COp>)> = vec![];
    let mut add = |w: u32, s: BoxedStrategy<COp>| {
        if w > 0 {
            v.push((w, s));
        }
    };
    add(p.w_step, any::<u16>().prop_map(|sel| COp::Step { sel }).boxed());
    add(p.w_stepcoop, (any::<u16>(), 0u8..6).prop_map(|(sel, budget)| COp::StepCoop { sel, budget }).boxed());
    add(p.w_drain, Just(COp::Drain).boxed());
    add(
        p.w_newcall,
        (any::<u16>(), dl_strategy(p), 0u16..4, any::<bool>())
            .prop_map(|(handle, dl, trace, sampled)| COp::NewCall { handle, dl, trace, sampled })
            .boxed(),
    );
    add(
        p.w_reply,
        (any::<u16>(), proptest::bool::weighted(0.2))
            .prop_map(|(sel, err)| COp::Reply { sel, err })
            .boxed(),
    );
    add(p.w_dup, any::<u16>().prop_map(|sel| COp::ReplyDup { sel }).boxed());
    add(p.w_unknown, any::<u8>().prop_map(|kind| COp::ReplyUnknown { kind }).boxed());
    let yields = p.yields;
    add(
        p.w_dropcall,
        (any::<u16>(), [0u8..4, 0u8..4, 0u8..4], proptest::bool::weighted(0.6))
            .prop_map(move |(sel, y, use_y)| COp::DropCall {
                sel,
                yields: if yields && use_y { y } else { [0, 0, 0] },
            })
            .boxed(),
    );
    add(p.w_clone, any::<u16>().prop_map(|from| COp::CloneHandle { from }).boxed());
    add(p.w_drophandle, any::<u16>().prop_map(|sel| COp::DropHandle { sel }).boxed());
    add(
        p.w_advance,
        prop_oneof![
            (0u64..5_000).prop_map(|us| COp::Advance { us }),
            (0u64..100).prop_map(|ms| COp::Advance { us: ms * 1000 }),
            (0u64..20_000).prop_map(|ms| COp::Advance { us: ms * 1000 }),
        ]
        .boxed(),
    );
    add(
        p.w_advance_to,
        (any::<u16>(), prop_oneof![Just(-1000i32), Just(0), Just(1000), Just(2000), -3000i32..3000])
            .prop_map(|(sel, delta_us)| COp::AdvanceTo { sel, delta_us })
            .boxed(),
    );
    add(
        p.w_budget,
        prop_oneof![3 => Just(0u8), 3 => 1u8..4, 2 => Just(255u8)]
            .prop_map(|n| COp::Budget { n })
            .boxed(),
    );
    add(
        p.w_fault,
        (0u8..5, 0u8..12).prop_map(|(op, k)| COp::Fault { op, k }).boxed(),
    );
    add(p.w_peerclose, Just(COp::PeerClose).boxed());
    add(p.w_closepending, (0u8..4).prop_map(|n| COp::ClosePending { n }).boxed());
    proptest::strategy::Union::new_weighted(v).boxed()
}

pub fn cfg_strategy(p: &CProfile) -> BoxedStrategy<ClientCfg> {
    let ind = match p.independent {
        Some(b) => Just(b).boxed(),
        None => any::<bool>().boxed(),
    };
    let subs = p.subscribers.clone();
    (
        p.max_in_flight.clone(),
        p.buffer.clone(),
        ind,
        p.cap.clone(),
        proptest::sample::select(subs),
    )
        .prop_map(|(max_in_flight, buffer, independent, cap, subscriber)| ClientCfg {
            max_in_flight,
            buffer,
            independent,
            cap,
            subscriber,
        })
        .boxed()
}

pub fn scenario_strategy(p: &CProfile) -> BoxedStrategy<CScenario> {
    (cfg_strategy(p), proptest::collection::vec(op_strategy(p), 0..p.max_ops))
        .prop_map(|(cfg, ops)| CScenario { cfg, ops })
        .boxed()
}
