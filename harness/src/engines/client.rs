//! Engine A: a real `tarpc::client` dispatch + handles + caller tasks over a scripted transport,
//! with the environment playing the server. Interprets a list of `COp`s.

use crate::sim::clock;
use crate::sim::exec::{Exec, PollOut, TaskId, TaskState};
use crate::sim::hist::{Ev, Hist, IoOp, Msg, Outcome, Probes, Rec, Tc};
use crate::sim::transport::{sim_transport, SimHandle, SimTransport, UNLIMITED};
use serde::{Deserialize, Serialize};
use std::cell::{Cell, RefCell};
use std::future::Future;
use std::pin::Pin;
use std::rc::Rc;
use std::task::{Context, Poll};
use std::time::Duration;
use tarpc::client::{Channel, RequestDispatch, RpcError};
use tarpc::{ClientMessage, Response, ServerError};

pub type CTransport = SimTransport<ClientMessage<u64>, Response<u64>>;
pub type CHandle = SimHandle<ClientMessage<u64>, Response<u64>>;

#[derive(Clone, Debug, Serialize, Deserialize, PartialEq, Eq)]
pub struct ClientCfg {
    pub max_in_flight: usize,
    pub buffer: usize,
    pub independent: bool,
    pub cap: usize,
    /// 0 none, 1 fmt subscriber, 2 OpenTelemetry layer
    pub subscriber: u8,
}

/// Deadline specification relative to the virtual clock at call time.
#[derive(Clone, Copy, Debug, Serialize, Deserialize, PartialEq, Eq)]
pub enum Dl {
    /// now + n microseconds
    InUs(u64),
    /// now - n microseconds (already expired)
    PastUs(u64),
    /// now + n seconds (large spans)
    InSecs(u64),
}

#[derive(Clone, Debug, Serialize, Deserialize, PartialEq, Eq)]
pub enum COp {
    Step { sel: u16 },
    /// Like Step, but the task is polled with only `budget` units of tokio's cooperative-scheduling
    /// budget left, as at the end of a long poll under load: from the (budget+1)-th operation on a
    /// tokio resource (mpsc / oneshot receive, timer) the resource answers Pending and wakes the task.
    StepCoop { sel: u16, budget: u8 },
    Drain,
    NewCall { handle: u16, dl: Dl, trace: u16, sampled: bool },
    Reply { sel: u16, err: bool },
    ReplyDup { sel: u16 },
    ReplyUnknown { kind: u8 },
    DropCall { sel: u16, yields: [u8; 3] },
    CloneHandle { from: u16 },
    DropHandle { sel: u16 },
    /// advance virtual time by n microseconds
    Advance { us: u64 },
    /// advance so that the clock lands at (deadline of a pending call) + delta_us
    AdvanceTo { sel: u16, delta_us: i32 },
    /// 0 = block writes, 255 = unlimited, else n more items
    Budget { n: u8 },
    Fault { op: u8, k: u8 },
    PeerClose,
    ClosePending { n: u8 },
    // closing-phase helpers
    ReplyAll,
    AdvancePastDeadlines,
    DropAllCalls,
    DropAllHandles,
    /// repeat (Drain; answer every unanswered request the peer has seen) until stable
    CloseOut,
}

#[derive(Clone, Debug, Serialize)]
pub struct CallInfo {
    pub call: usize,
    pub task: TaskId,
    pub body: u64,
    #[serde(serialize_with = "crate::sim::hist::ser_str")]
    pub deadline_ns: i128,
    pub handle: usize,
    pub trace: Tc,
    pub created_seq: usize,
    pub created_ns: u64,
}

#[derive(Clone, Debug, Default)]
pub struct CallState {
    pub resolved: Option<(usize, u64, Outcome)>, // (seq, t_ns, outcome)
    pub dropped: Option<(usize, u64)>,
}

pub struct ClientSim {
    pub cfg: ClientCfg,
    pub hist: Hist,
    pub exec: Exec,
    pub tr: CHandle,
    pub hop: usize,
    handles: RefCell<Vec<Option<Rc<Channel<u64, u64>>>>>,
    pub dispatch_task: TaskId,
    pub calls: RefCell<Vec<CallInfo>>,
    pub call_states: Rc<RefCell<Vec<CallState>>>,
    /// requests the peer has seen (flushed to the wire), in order
    pub peer_seen: RefCell<Vec<Msg>>,
    pub answered: RefCell<Vec<u64>>,
    reply_ctr: Cell<u64>,
    pub probes: Rc<DispatchProbes>,
    pub noops: Cell<u32>,
    pub livelock: Cell<bool>,
    pub panics: RefCell<Vec<(TaskId, String)>>,
    pub step_budget: Cell<u64>,
    pub allow_huge: Cell<bool>,
    pub excluded_known: Cell<u32>,
}

#[derive(Default)]
pub struct DispatchProbes {
    pub in_flight: Cell<usize>,
    pub timers: Cell<usize>,
    pub ended: RefCell<Option<Result<(), String>>>,
}

struct DispatchTask {
    d: Pin<Box<RequestDispatch<u64, u64, CTransport>>>,
    probes: Rc<DispatchProbes>,
    hist: Hist,
    hop: usize,
}

impl Future for DispatchTask {
    type Output = ();
    fn poll(mut self: Pin<&mut Self>, cx: &mut Context<'_>) -> Poll<()> {
        let r = self.d.as_mut().poll(cx);
        let dref = self.d.as_ref().get_ref();
        self.probes.in_flight.set(dref.verif_in_flight_len());
        self.probes.timers.set(dref.verif_deadline_timers());
        match r {
            Poll::Pending => Poll::Pending,
            Poll::Ready(res) => {
                let res = res.map_err(|e| channel_err_name(&e));
                *self.probes.ended.borrow_mut() = Some(res.clone());
                self.hist.push(Ev::DispatchEnd { hop: self.hop, result: res });
                Poll::Ready(())
            }
        }
    }
}

pub fn channel_err_name<E: ?Sized>(e: &tarpc::ChannelError<E>) -> String {
    use tarpc::ChannelError::*;
    match e {
        Read(_) => "Read",
        Ready(_) => "Ready",
        Write(_) => "Write",
        Flush(_) => "Flush",
        Close(_) => "Close",
    }
    .to_string()
}

pub fn outcome_of(r: Result<u64, RpcError>) -> Outcome {
    match r {
        Ok(v) => Outcome::Ok(v),
        Err(RpcError::Server(e)) => Outcome::Server(format!("{:?}", e.kind), e.detail),
        Err(RpcError::DeadlineExceeded) => Outcome::Deadline,
        Err(RpcError::Shutdown) => Outcome::Shutdown,
        Err(RpcError::Send(_)) => Outcome::Send,
        Err(RpcError::Channel(e)) => Outcome::Channel(channel_err_name(&e)),
    }
}

pub const BODY_BASE: u64 = 1_000;
pub const PAYLOAD_BASE: u64 = 1_000_000;
pub const MAX_STEPS: u64 = 20_000;
/// Largest absolute virtual offset (s) a deadline may have without hitting finding F3 (2^36 ms = 68,719,476 s).
pub const SUPPORTED_SPAN_SECS: u64 = 66_000_000;

impl ClientSim {
    /// Must be called inside the paused runtime with the virtual clock enabled.
    pub fn new(cfg: ClientCfg, hist: Hist, hop: usize, tr_id: u8) -> Rc<Self> {
        let (transport, tr) = sim_transport::<ClientMessage<u64>, Response<u64>>(
            tr_id,
            &hist,
            cfg.independent,
            cfg.cap,
        );
        let mut c = tarpc::client::Config::default();
        c.max_in_flight_requests = cfg.max_in_flight;
        c.pending_request_buffer = cfg.buffer;
        let tarpc::client::NewClient { client, dispatch } = tarpc::client::new(c, transport);
        let exec = Exec::new();
        let probes = Rc::new(DispatchProbes::default());
        let dispatch_task = exec.spawn(
            "dispatch",
            Box::pin(DispatchTask {
                d: Box::pin(dispatch),
                probes: probes.clone(),
                hist: hist.clone(),
                hop,
            }),
        );
        Rc::new(ClientSim {
            cfg,
            hist,
            exec,
            tr,
            hop,
            handles: RefCell::new(vec![Some(Rc::new(client))]),
            dispatch_task,
            calls: RefCell::new(vec![]),
            call_states: Rc::new(RefCell::new(vec![])),
            peer_seen: RefCell::new(vec![]),
            answered: RefCell::new(vec![]),
            reply_ctr: Cell::new(0),
            probes,
            noops: Cell::new(0),
            livelock: Cell::new(false),
            panics: RefCell::new(vec![]),
            step_budget: Cell::new(0),
            allow_huge: Cell::new(false),
            excluded_known: Cell::new(0),
        })
    }

    fn noop(&self) {
        self.noops.set(self.noops.get() + 1);
    }

    fn pick(sel: u16, n: usize) -> usize {
        ((sel as usize) * n) >> 16
    }

    pub fn collect_wire(&self) {
        for m in self.tr.take_wire() {
            let m = crate::sim::hist::Snap::snap(&m);
            self.peer_seen.borrow_mut().push(m);
        }
    }

    pub fn poll_task(&self, t: TaskId) -> PollOut {
        self.poll_task_c(t, false)
    }

    /// `constrained`: poll under whatever is left of the cooperative-scheduling budget tokio gave the
    /// interpreter's root future (see `COp::StepCoop`); otherwise the poll is exempt from it.
    pub fn poll_task_c(&self, t: TaskId, constrained: bool) -> PollOut {
        self.hist.0.cur_task.set(Some(t));
        self.hist.0.poll_seq.set(self.hist.0.poll_seq.get() + 1);
        self.hist.push(Ev::PollStart { task: t, coop: constrained });
        let out = if constrained {
            self.exec.poll(t)
        } else {
            let mut f = std::pin::pin!(tokio::task::unconstrained(std::future::poll_fn(|_| Poll::Ready(self.exec.poll(t)))));
            let w = futures::task::noop_waker();
            let mut cx = Context::from_waker(&w);
            match f.as_mut().poll(&mut cx) {
                Poll::Ready(o) => o,
                Poll::Pending => unreachable!("poll_fn returns Ready"),
            }
        };
        self.hist.0.cur_task.set(None);
        let o = match &out {
            PollOut::Pending => "Pending".to_string(),
            PollOut::Ready => "Ready".to_string(),
            PollOut::Panicked(m) => {
                self.panics.borrow_mut().push((t, m.clone()));
                format!("Panicked: {m}")
            }
        };
        self.hist.push(Ev::PollEnd { task: t, out: o, woken: constrained || self.exec.is_woken(t) });
        self.collect_wire();
        out
    }

    pub fn step(&self, sel: u16) -> bool {
        let w = self.exec.woken();
        if w.is_empty() {
            self.noop();
            return false;
        }
        let t = w[Self::pick(sel, w.len())];
        self.poll_task(t);
        true
    }

    /// Run until no task is woken, letting the tokio time driver turn in between.
    pub async fn drain(&self) {
        let mut steps = 0u64;
        loop {
            loop {
                let w = self.exec.woken();
                if w.is_empty() {
                    break;
                }
                // rotate for fairness: lowest id first
                self.poll_task(w[0]);
                steps += 1;
                if steps > MAX_STEPS {
                    self.livelock.set(true);
                    self.hist.push(Ev::Note { text: "livelock: step bound exceeded in drain".into() });
                    return;
                }
            }
            tokio::task::yield_now().await;
            if self.exec.woken().is_empty() {
                break;
            }
        }
        self.hist.push(Ev::Quiescent {
            probes: Probes {
                client_in_flight: Some(self.probes.in_flight.get()),
                client_timers: Some(self.probes.timers.get()),
                inbound_len: self.tr.inbound_len(),
                buffered: self.tr.buffered(),
                budget_zero: self.tr.budget() == 0,
                dispatch_alive: self.exec.state(self.dispatch_task) == TaskState::Alive,
                ..Default::default()
            },
        });
    }

    pub fn live_handles(&self) -> Vec<usize> {
        self.handles
            .borrow()
            .iter()
            .enumerate()
            .filter(|(_, h)| h.is_some())
            .map(|(i, _)| i)
            .collect()
    }

    pub fn pending_calls(&self) -> Vec<usize> {
        let st = self.call_states.borrow();
        (0..st.len())
            .filter(|&i| st[i].resolved.is_none() && st[i].dropped.is_none())
            .collect()
    }

    pub fn new_call(self: &Rc<Self>, handle: u16, dl: Dl, trace: u16, sampled: bool) {
        let live = self.live_handles();
        if live.is_empty() {
            self.noop();
            return;
        }
        let hi = live[Self::pick(handle, live.len())];
        let h = self.handles.borrow()[hi].clone().unwrap();
        let call = self.calls.borrow().len();
        let body = BODY_BASE + call as u64;
        let now = std::time::Instant::now();
        let mut deadline = match dl {
            Dl::InUs(us) => now + Duration::from_micros(us),
            Dl::PastUs(us) => now - Duration::from_micros(us),
            Dl::InSecs(s) => now + Duration::from_secs(s),
        };
        // Known finding F3: a timer more than 2^36 ms after the timer queue's creation panics in
        // DelayQueue::insert. Unless the scenario asks for it, steer around that region and count it.
        if !self.allow_huge.get() {
            let cap = clock::instant_at(SUPPORTED_SPAN_SECS * 1_000_000_000);
            if deadline > cap {
                deadline = cap;
                self.excluded_known.set(self.excluded_known.get() + 1);
            }
        }
        let tc = Tc {
            trace_id: 0x1000_0000_0000_0000_0000_0000_0000_0000u128 + ((trace as u128) << 32) + call as u128 + 1,
            span_id: 0x5000_0000 + call as u64,
            sampled,
        };
        let mut ctx = tarpc::context::current();
        ctx.deadline = deadline;
        ctx.trace_context = tc.to_tarpc();
        let deadline_ns = clock::offset_of(deadline);
        let states = self.call_states.clone();
        states.borrow_mut().push(CallState::default());
        let hist = self.hist.clone();
        let fut = Box::pin(async move {
            let r = h.call(ctx, body).await;
            let o = outcome_of(r);
            let seq = hist.push(Ev::CallResolved { call, outcome: o.clone() });
            states.borrow_mut()[call].resolved = Some((seq, clock::now_ns(), o));
            drop(h);
        });
        let task = self.exec.spawn(format!("call{call}"), fut);
        let seq = self.hist.push(Ev::CallCreated {
            call,
            body,
            deadline_ns,
            trace: tc,
            handle: hi,
        });
        self.calls.borrow_mut().push(CallInfo {
            call,
            task,
            body,
            deadline_ns,
            handle: hi,
            trace: tc,
            created_seq: seq,
            created_ns: clock::now_ns(),
        });
    }

    fn unanswered_seen(&self) -> Vec<u64> {
        let ans = self.answered.borrow();
        let mut v = vec![];
        for m in self.peer_seen.borrow().iter() {
            if let Msg::Request { id, .. } = m {
                if !ans.contains(id) && !v.contains(id) {
                    v.push(*id);
                }
            }
        }
        v
    }

    fn next_payload(&self) -> u64 {
        let n = self.reply_ctr.get();
        self.reply_ctr.set(n + 1);
        PAYLOAD_BASE + n
    }

    pub fn send_response(&self, id: u64, err: bool) -> u64 {
        let p = self.next_payload();
        let message = if err {
            Err(ServerError::new(std::io::ErrorKind::Other, format!("e{p}")))
        } else {
            Ok(p)
        };
        self.tr.deliver(Response { request_id: id, message });
        p
    }

    pub fn reply(&self, sel: u16, err: bool) {
        let c = self.unanswered_seen();
        if c.is_empty() {
            self.noop();
            return;
        }
        let id = c[Self::pick(sel, c.len())];
        self.answered.borrow_mut().push(id);
        self.send_response(id, err);
    }

    pub fn reply_dup(&self, sel: u16) {
        let c = self.answered.borrow().clone();
        if c.is_empty() {
            self.noop();
            return;
        }
        let id = c[Self::pick(sel, c.len())];
        self.send_response(id, false);
    }

    pub fn reply_unknown(&self, kind: u8) {
        let ncalls = self.calls.borrow().len() as u64;
        let id = match kind % 6 {
            0 => u64::MAX,
            1 => u64::MAX - 1,
            2 => 1_000_000 + kind as u64,
            3 => ncalls + 500,
            4 => (1u64 << 32) + 1,
            _ => ncalls + 10_000,
        };
        self.send_response(id, kind & 0x80 != 0);
    }

    pub fn drop_call(self: &Rc<Self>, sel: u16, yields: [u8; 3]) {
        let p = self.pending_calls();
        if p.is_empty() {
            self.noop();
            return;
        }
        let call = p[Self::pick(sel, p.len())];
        self.drop_call_idx(call, yields);
    }

    pub fn drop_call_idx(self: &Rc<Self>, call: usize, yields: [u8; 3]) {
        let task = self.calls.borrow()[call].task;
        if self.exec.state(task) != TaskState::Alive {
            return;
        }
        let seq = self.hist.push(Ev::CallDropped { call });
        self.call_states.borrow_mut()[call].dropped = Some((seq, clock::now_ns()));
        let use_hook = yields.iter().any(|&y| y > 0);
        if use_hook {
            let me = self.clone();
            tarpc::verif::set_yield_hook(Some(Box::new(move |point: &'static str| {
                let n = match point {
                    "guard_drop_enter" => yields[0],
                    "guard_drop_mid" => yields[1],
                    _ => yields[2],
                };
                if n > 0 {
                    me.hist.push(Ev::Yield { point, call });
                }
                for _ in 0..n {
                    let w = me.exec.woken();
                    if w.is_empty() {
                        break;
                    }
                    me.poll_task(w[0]);
                }
            })));
        }
        if let Some(m) = self.exec.drop_task(task) {
            self.panics.borrow_mut().push((task, format!("in drop: {m}")));
        }
        if use_hook {
            tarpc::verif::set_yield_hook(None);
        }
        self.collect_wire();
    }

    pub fn clone_handle(&self, from: u16) {
        let live = self.live_handles();
        if live.is_empty() || self.handles.borrow().len() >= 6 {
            self.noop();
            return;
        }
        let hi = live[Self::pick(from, live.len())];
        let c: Channel<u64, u64> = (**self.handles.borrow()[hi].as_ref().unwrap()).clone();
        self.handles.borrow_mut().push(Some(Rc::new(c)));
    }

    pub fn drop_handle(&self, sel: u16) {
        let live = self.live_handles();
        if live.is_empty() {
            self.noop();
            return;
        }
        let hi = live[Self::pick(sel, live.len())];
        let h = self.handles.borrow_mut()[hi].take();
        self.hist.push(Ev::HandleDropped { handle: hi });
        drop(h);
    }

    pub fn all_handles_gone(&self) -> bool {
        if !self.live_handles().is_empty() {
            return false;
        }
        let calls = self.calls.borrow();
        calls.iter().all(|c| self.exec.state(c.task) != TaskState::Alive)
    }

    pub fn max_deadline_ns(&self) -> i128 {
        self.calls.borrow().iter().map(|c| c.deadline_ns).max().unwrap_or(0)
    }

    pub async fn apply(self: &Rc<Self>, op: &COp) {
        self.hist.push(Ev::Env { op: format!("{op:?}") });
        match op {
            COp::Step { sel } => {
                self.step(*sel);
            }
            COp::StepCoop { sel, budget } => {
                let w = self.exec.woken();
                if w.is_empty() {
                    self.noop();
                } else {
                    let t = w[Self::pick(*sel, w.len())];
                    // a fresh budget (128 units) for the root future, then burn all but `budget` of it
                    tokio::task::yield_now().await;
                    for _ in 0..(128u32.saturating_sub(*budget as u32)) {
                        tokio::task::coop::consume_budget().await;
                    }
                    if self.exec.is_woken(t) {
                        self.poll_task_c(t, true);
                    } else {
                        self.noop();
                    }
                }
            }
            COp::Drain => self.drain().await,
            COp::NewCall { handle, dl, trace, sampled } => self.new_call(*handle, *dl, *trace, *sampled),
            COp::Reply { sel, err } => self.reply(*sel, *err),
            COp::ReplyDup { sel } => self.reply_dup(*sel),
            COp::ReplyUnknown { kind } => self.reply_unknown(*kind),
            COp::DropCall { sel, yields } => self.drop_call(*sel, *yields),
            COp::CloneHandle { from } => self.clone_handle(*from),
            COp::DropHandle { sel } => self.drop_handle(*sel),
            COp::Advance { us } => clock::advance(Duration::from_micros(*us)).await,
            COp::AdvanceTo { sel, delta_us } => {
                let p = self.pending_calls();
                if p.is_empty() {
                    self.noop();
                } else {
                    let call = p[Self::pick(*sel, p.len())];
                    let d = self.calls.borrow()[call].deadline_ns + (*delta_us as i128) * 1000;
                    let now = clock::now_ns() as i128;
                    // only forward, and never absurdly far (huge deadlines are handled by Advance)
                    if d > now && d - now < 1200 * 86_400 * 1_000_000_000i128 {
                        clock::advance(Duration::from_nanos((d - now) as u64)).await;
                    } else {
                        self.noop();
                    }
                }
            }
            COp::Budget { n } => {
                let b = match *n {
                    255 => UNLIMITED,
                    n => n as u64,
                };
                self.tr.set_budget(b);
                self.collect_wire();
            }
            COp::Fault { op, k } => {
                let op = match op % 5 {
                    0 => IoOp::Ready,
                    1 => IoOp::Send,
                    2 => IoOp::Flush,
                    3 => IoOp::Close,
                    _ => IoOp::Next,
                };
                self.tr.set_fault(op, *k as u32);
            }
            COp::PeerClose => self.tr.close_inbound(),
            COp::ClosePending { n } => self.tr.set_close_pending(*n as u32),
            COp::ReplyAll => {
                for id in self.unanswered_seen() {
                    self.answered.borrow_mut().push(id);
                    self.send_response(id, false);
                }
            }
            COp::AdvancePastDeadlines => {
                let d = self.max_deadline_ns() + 5_000_000;
                let now = clock::now_ns() as i128;
                if d > now {
                    let total = (d - now) as u64;
                    clock::advance(Duration::from_nanos(total)).await;
                }
                // a queued request written after its deadline expires one timer granule after the
                // write; each expiry can free a slot for the next queued request
                let rounds = self.calls.borrow().len() + 2;
                for _ in 0..rounds {
                    self.drain().await;
                    if self.livelock.get() || self.pending_calls().is_empty() {
                        break;
                    }
                    clock::advance(Duration::from_millis(3)).await;
                }
            }
            COp::CloseOut => {
                for _ in 0..200 {
                    self.drain().await;
                    let un = self.unanswered_seen();
                    if un.is_empty() || self.livelock.get() {
                        break;
                    }
                    for id in un {
                        self.answered.borrow_mut().push(id);
                        self.send_response(id, false);
                    }
                }
            }
            COp::DropAllCalls => {
                for c in self.pending_calls() {
                    self.drop_call_idx(c, [0, 0, 0]);
                }
            }
            COp::DropAllHandles => {
                for hi in self.live_handles() {
                    let h = self.handles.borrow_mut()[hi].take();
                    self.hist.push(Ev::HandleDropped { handle: hi });
                    drop(h);
                }
            }
        }
    }

    pub fn finish(&self) {
        self.handles.borrow_mut().clear();
        self.exec.drop_all();
    }
}

/// Result of one interpreted client scenario.
pub struct ClientRun {
    pub cfg: ClientCfg,
    pub recs: Vec<Rec>,
    pub calls: Vec<CallInfo>,
    pub states: Vec<CallState>,
    pub dispatch_end: Option<Result<(), String>>,
    pub dispatch_state: TaskState,
    pub panics: Vec<(TaskId, String)>,
    pub livelock: bool,
    pub noops: u32,
    pub max_streak: u32,
    pub final_in_flight: usize,
    pub final_timers: usize,
    pub transport_blocked_at_end: bool,
    pub total_polls: u64,
    pub excluded_known: u32,
}

/// tracing caches per-callsite interest globally. While exactly one dispatcher is registered it
/// evaluates callsites against the *current thread's* default, so a thread without a subscriber
/// can disable a callsite for the one thread that has one. Keeping two inert dispatchers registered
/// for the life of the process forces the exact (all registered dispatchers) path.
fn pin_tracing_registry() {
    static ONCE: std::sync::Once = std::sync::Once::new();
    ONCE.call_once(|| {
        struct Inert;
        impl tracing::Subscriber for Inert {
            fn register_callsite(&self, _: &'static tracing::Metadata<'static>) -> tracing::subscriber::Interest {
                tracing::subscriber::Interest::never()
            }
            fn enabled(&self, _: &tracing::Metadata<'_>) -> bool {
                false
            }
            fn new_span(&self, _: &tracing::span::Attributes<'_>) -> tracing::span::Id {
                tracing::span::Id::from_u64(0xDEAD)
            }
            fn record(&self, _: &tracing::span::Id, _: &tracing::span::Record<'_>) {}
            fn record_follows_from(&self, _: &tracing::span::Id, _: &tracing::span::Id) {}
            fn event(&self, _: &tracing::Event<'_>) {}
            fn enter(&self, _: &tracing::span::Id) {}
            fn exit(&self, _: &tracing::span::Id) {}
        }
        std::mem::forget(tracing::Dispatch::new(Inert));
        std::mem::forget(tracing::Dispatch::new(Inert));
    });
}

pub fn subscriber_guard(mode: u8) -> Option<tracing::subscriber::DefaultGuard> {
    use tracing_subscriber::prelude::*;
    pin_tracing_registry();
    match mode {
        1 => {
            let sub = tracing_subscriber::fmt()
                .with_max_level(tracing::Level::TRACE)
                .with_writer(std::io::sink)
                .finish();
            Some(tracing::subscriber::set_default(sub))
        }
        2 => {
            use opentelemetry::trace::TracerProvider as _;
            let provider = opentelemetry_sdk::trace::TracerProvider::builder().build();
            let tracer = provider.tracer("verif");
            let layer = tracing_opentelemetry::layer().with_tracer(tracer);
            let sub = tracing_subscriber::registry().with(layer);
            Some(tracing::subscriber::set_default(sub))
        }
        _ => None,
    }
}

pub fn new_runtime() -> tokio::runtime::Runtime {
    tokio::runtime::Builder::new_current_thread()
        .enable_time()
        .start_paused(true)
        .build()
        .expect("runtime")
}

/// Interpret `ops` on a fresh client. Pure function of (cfg, ops).
pub fn run_client(cfg: &ClientCfg, ops: &[COp]) -> ClientRun {
    clock::enable_and_reset();
    tarpc::verif::set_yield_hook(None);
    let _sub = subscriber_guard(cfg.subscriber);
    let rt = new_runtime();
    let hist = Hist::new();
    // the root future runs under tokio's cooperative budget; every ordinary task poll is individually
    // exempt from it (poll_task), only StepCoop polls feel it
    let out = rt.block_on(async {
        let sim = ClientSim::new(cfg.clone(), hist.clone(), 0, 0);
        for op in ops {
            if sim.livelock.get() {
                break;
            }
            sim.apply(op).await;
        }
        let run = ClientRun {
            cfg: cfg.clone(),
            recs: vec![],
            calls: sim.calls.borrow().clone(),
            states: sim.call_states.borrow().clone(),
            dispatch_end: sim.probes.ended.borrow().clone(),
            dispatch_state: sim.exec.state(sim.dispatch_task),
            panics: sim.panics.borrow().clone(),
            livelock: sim.livelock.get(),
            noops: sim.noops.get(),
            max_streak: sim.tr.max_streak(),
            final_in_flight: sim.probes.in_flight.get(),
            final_timers: sim.probes.timers.get(),
            transport_blocked_at_end: sim.tr.write_blocked(),
            total_polls: sim.exec.total_polls.get(),
            excluded_known: sim.excluded_known.get(),
        };
        let mut run = run;
        run.recs = hist.snapshot();
        sim.finish();
        run
    });
    drop(rt);
    tarpc::verif::set_yield_hook(None);
    clock::disable();
    let mut out = out;
    out
}
