//! Engine C: chains client -> server -> client -> server (1..3 hops) over the shipped in-memory
//! channel or the serde transport (JSON / bincode) on in-memory byte pipes. One executor owns all
//! tasks; every transport is wrapped in a logging adapter so wire items and their times are known.

use crate::engines::client::{new_runtime, outcome_of, subscriber_guard, Dl, MAX_STEPS};
use crate::sim::clock;
use crate::sim::exec::{Exec, PollOut, TaskId, TaskState};
use crate::sim::hist::{Ev, Hist, IoOp, IoRes, Outcome, Rec, Snap, Tc};
use crate::sim::pipe::pipe;
use crate::sim::transport::SimIoError;
use futures::{Future, Sink, Stream};
use serde::{Deserialize, Serialize};
use std::cell::{Cell, RefCell};
use std::collections::{BTreeMap, VecDeque};
use std::pin::Pin;
use std::rc::Rc;
use std::task::{Context, Poll, Waker};
use std::time::Duration;
use tarpc::client::Channel;
use tarpc::server::{BaseChannel, Channel as _, InFlightRequest, Requests, Serve};
use tarpc::{ClientMessage, Response, ServerError};

#[derive(Clone, Copy, Debug, Serialize, Deserialize, PartialEq, Eq)]
pub enum Medium {
    Mem,
    Json,
    Bincode,
}

#[derive(Clone, Debug, Serialize, Deserialize, PartialEq, Eq)]
pub struct ChainCfg {
    pub depth: usize,
    pub medium: Medium,
    pub subscriber: u8,
    /// every downstream client has exactly one handle, which the first handler invocation of the
    /// hop above takes with it: when that handler is aborted, its outstanding call *and* the last
    /// handle of its client are dropped together (a handler that owns its downstream connection)
    #[serde(default)]
    pub sole_owner: bool,
}

#[derive(Clone, Debug, Serialize, Deserialize, PartialEq, Eq)]
pub enum ChOp {
    Step { sel: u16 },
    Drain,
    Call { dl: Dl, trace: u16, sampled: bool },
    DropCall { sel: u16 },
    Advance { us: u64 },
    CompleteLeaf { sel: u16, err: bool },
    CompleteAllLeaves,
}

// ---------------------------------------------------------------- logging transport adapter

pub struct Logged<T, S, I> {
    inner: Pin<Box<T>>,
    id: u8,
    hist: Hist,
    _p: std::marker::PhantomData<fn(S) -> I>,
}

impl<T, S, I> Logged<T, S, I> {
    pub fn new(inner: T, id: u8, hist: &Hist) -> Self {
        Logged { inner: Box::pin(inner), id, hist: hist.clone(), _p: Default::default() }
    }
    fn log(&self, op: IoOp, sent: Option<crate::sim::hist::Msg>, res: IoRes) {
        self.hist.push(Ev::Io { tr: self.id, task: self.hist.0.cur_task.get(), op, sent, res });
    }
}

impl<T, S, I, E> Stream for Logged<T, S, I>
where
    T: Stream<Item = Result<I, E>>,
    I: Snap,
    E: std::fmt::Display,
{
    type Item = Result<I, SimIoError>;
    fn poll_next(mut self: Pin<&mut Self>, cx: &mut Context<'_>) -> Poll<Option<Self::Item>> {
        let r = self.inner.as_mut().poll_next(cx);
        match r {
            Poll::Pending => {
                self.log(IoOp::Next, None, IoRes::Pending);
                Poll::Pending
            }
            Poll::Ready(None) => {
                self.log(IoOp::Next, None, IoRes::End);
                Poll::Ready(None)
            }
            Poll::Ready(Some(Ok(item))) => {
                let m = item.snap();
                self.log(IoOp::Next, None, IoRes::Item(m));
                Poll::Ready(Some(Ok(item)))
            }
            Poll::Ready(Some(Err(e))) => {
                self.hist.push(Ev::Note { text: format!("transport {} read error: {e}", self.id) });
                self.log(IoOp::Next, None, IoRes::ItemErr);
                Poll::Ready(Some(Err(SimIoError("poll_next"))))
            }
        }
    }
}

impl<T, S, I, E> Sink<S> for Logged<T, S, I>
where
    T: Sink<S, Error = E>,
    S: Snap,
    E: std::fmt::Display,
{
    type Error = SimIoError;
    fn poll_ready(mut self: Pin<&mut Self>, cx: &mut Context<'_>) -> Poll<Result<(), SimIoError>> {
        match self.inner.as_mut().poll_ready(cx) {
            Poll::Pending => {
                self.log(IoOp::Ready, None, IoRes::Pending);
                Poll::Pending
            }
            Poll::Ready(Ok(())) => {
                self.log(IoOp::Ready, None, IoRes::Ok);
                Poll::Ready(Ok(()))
            }
            Poll::Ready(Err(e)) => {
                self.hist.push(Ev::Note { text: format!("transport {} ready error: {e}", self.id) });
                self.log(IoOp::Ready, None, IoRes::Err);
                Poll::Ready(Err(SimIoError("poll_ready")))
            }
        }
    }
    fn start_send(mut self: Pin<&mut Self>, item: S) -> Result<(), SimIoError> {
        let m = item.snap();
        match self.inner.as_mut().start_send(item) {
            Ok(()) => {
                self.log(IoOp::Send, Some(m), IoRes::Ok);
                Ok(())
            }
            Err(e) => {
                self.hist.push(Ev::Note { text: format!("transport {} send error: {e}", self.id) });
                self.log(IoOp::Send, Some(m), IoRes::Err);
                Err(SimIoError("start_send"))
            }
        }
    }
    fn poll_flush(mut self: Pin<&mut Self>, cx: &mut Context<'_>) -> Poll<Result<(), SimIoError>> {
        match self.inner.as_mut().poll_flush(cx) {
            Poll::Pending => {
                self.log(IoOp::Flush, None, IoRes::Pending);
                Poll::Pending
            }
            Poll::Ready(Ok(())) => {
                self.log(IoOp::Flush, None, IoRes::Ok);
                Poll::Ready(Ok(()))
            }
            Poll::Ready(Err(e)) => {
                self.hist.push(Ev::Note { text: format!("transport {} flush error: {e}", self.id) });
                self.log(IoOp::Flush, None, IoRes::Err);
                Poll::Ready(Err(SimIoError("poll_flush")))
            }
        }
    }
    fn poll_close(mut self: Pin<&mut Self>, cx: &mut Context<'_>) -> Poll<Result<(), SimIoError>> {
        match self.inner.as_mut().poll_close(cx) {
            Poll::Pending => {
                self.log(IoOp::Close, None, IoRes::Pending);
                Poll::Pending
            }
            Poll::Ready(Ok(())) => {
                self.log(IoOp::Close, None, IoRes::Ok);
                Poll::Ready(Ok(()))
            }
            Poll::Ready(Err(e)) => {
                self.hist.push(Ev::Note { text: format!("transport {} close error: {e}", self.id) });
                self.log(IoOp::Close, None, IoRes::Err);
                Poll::Ready(Err(SimIoError("poll_close")))
            }
        }
    }
}

pub trait TrObj<S, I>: Stream<Item = Result<I, SimIoError>> + Sink<S, Error = SimIoError> {}
impl<T, S, I> TrObj<S, I> for T where T: Stream<Item = Result<I, SimIoError>> + Sink<S, Error = SimIoError> {}

pub struct BoxedTr<S, I>(pub Pin<Box<dyn TrObj<S, I>>>);

impl<S, I> Stream for BoxedTr<S, I> {
    type Item = Result<I, SimIoError>;
    fn poll_next(mut self: Pin<&mut Self>, cx: &mut Context<'_>) -> Poll<Option<Self::Item>> {
        self.0.as_mut().poll_next(cx)
    }
}
impl<S, I> Sink<S> for BoxedTr<S, I> {
    type Error = SimIoError;
    fn poll_ready(mut self: Pin<&mut Self>, cx: &mut Context<'_>) -> Poll<Result<(), SimIoError>> {
        self.0.as_mut().poll_ready(cx)
    }
    fn start_send(mut self: Pin<&mut Self>, item: S) -> Result<(), SimIoError> {
        self.0.as_mut().start_send(item)
    }
    fn poll_flush(mut self: Pin<&mut Self>, cx: &mut Context<'_>) -> Poll<Result<(), SimIoError>> {
        self.0.as_mut().poll_flush(cx)
    }
    fn poll_close(mut self: Pin<&mut Self>, cx: &mut Context<'_>) -> Poll<Result<(), SimIoError>> {
        self.0.as_mut().poll_close(cx)
    }
}

pub type CTr = BoxedTr<ClientMessage<u64>, Response<u64>>;
pub type STr = BoxedTr<Response<u64>, ClientMessage<u64>>;

/// Build one link: (client side, server side); ids 2k / 2k+1.
pub fn make_link(medium: Medium, k: usize, hist: &Hist) -> (CTr, STr) {
    let (cid, sid) = ((2 * k) as u8, (2 * k + 1) as u8);
    match medium {
        Medium::Mem => {
            let (c, s) = tarpc::transport::channel::unbounded::<Response<u64>, ClientMessage<u64>>();
            (BoxedTr(Box::pin(Logged::new(c, cid, hist))), BoxedTr(Box::pin(Logged::new(s, sid, hist))))
        }
        Medium::Json => {
            let (a, b) = pipe();
            a.tx.borrow_mut().auto_deliver = true;
            b.tx.borrow_mut().auto_deliver = true;
            let c = tarpc::serde_transport::Transport::<_, Response<u64>, ClientMessage<u64>, _>::from((
                a,
                tokio_serde::formats::Json::<Response<u64>, ClientMessage<u64>>::default(),
            ));
            let s = tarpc::serde_transport::Transport::<_, ClientMessage<u64>, Response<u64>, _>::from((
                b,
                tokio_serde::formats::Json::<ClientMessage<u64>, Response<u64>>::default(),
            ));
            (BoxedTr(Box::pin(Logged::new(c, cid, hist))), BoxedTr(Box::pin(Logged::new(s, sid, hist))))
        }
        Medium::Bincode => {
            let (a, b) = pipe();
            a.tx.borrow_mut().auto_deliver = true;
            b.tx.borrow_mut().auto_deliver = true;
            let c = tarpc::serde_transport::Transport::<_, Response<u64>, ClientMessage<u64>, _>::from((
                a,
                tokio_serde::formats::Bincode::<Response<u64>, ClientMessage<u64>>::default(),
            ));
            let s = tarpc::serde_transport::Transport::<_, ClientMessage<u64>, Response<u64>, _>::from((
                b,
                tokio_serde::formats::Bincode::<ClientMessage<u64>, Response<u64>>::default(),
            ));
            (BoxedTr(Box::pin(Logged::new(c, cid, hist))), BoxedTr(Box::pin(Logged::new(s, sid, hist))))
        }
    }
}

// ---------------------------------------------------------------- handlers

#[derive(Default)]
pub struct ChainShared {
    pub completion: RefCell<BTreeMap<u64, Result<u64, String>>>, // leaf completion by body
    pub wakers: RefCell<BTreeMap<u64, Waker>>,
    /// (hop, body) -> (deadline_ns seen, trace seen, current() deadline seen if a subscriber carries it)
    pub started: RefCell<BTreeMap<(usize, u64), (i128, Tc, i128)>>,
    pub finished: RefCell<BTreeMap<(usize, u64), bool>>,
    pub leaf_running: RefCell<Vec<u64>>,
}

#[derive(Clone)]
pub struct ChainServe {
    hop: usize,
    next: Option<Rc<Channel<u64, u64>>>,
    /// sole-owner topology: the only handle of the downstream client, taken by the first invocation
    next_once: Option<Rc<RefCell<Option<Channel<u64, u64>>>>>,
    shared: Rc<ChainShared>,
    hist: Hist,
}

struct LeafFut {
    hop: usize,
    body: u64,
    shared: Rc<ChainShared>,
    hist: Hist,
    done: bool,
}
impl Future for LeafFut {
    type Output = Result<u64, ServerError>;
    fn poll(mut self: Pin<&mut Self>, cx: &mut Context<'_>) -> Poll<Self::Output> {
        let c = self.shared.completion.borrow().get(&self.body).cloned();
        match c {
            Some(r) => {
                self.done = true;
                Poll::Ready(r.map_err(|d| ServerError::new(std::io::ErrorKind::Other, d)))
            }
            None => {
                self.shared.wakers.borrow_mut().insert(self.body, cx.waker().clone());
                Poll::Pending
            }
        }
    }
}
impl Drop for LeafFut {
    fn drop(&mut self) {
        let _ = (&self.hist, self.hop, self.done);
    }
}

struct HandlerGuard {
    hop: usize,
    body: u64,
    shared: Rc<ChainShared>,
    hist: Hist,
    done: bool,
}
impl Drop for HandlerGuard {
    fn drop(&mut self) {
        self.shared.finished.borrow_mut().insert((self.hop, self.body), self.done);
        self.shared.leaf_running.borrow_mut().retain(|b| *b != self.body || self.hop != usize::MAX);
        self.hist.push(Ev::Note {
            text: format!("HopHandlerEnd hop={} body={} finished={}", self.hop, self.body, self.done),
        });
    }
}

impl Serve for ChainServe {
    type Req = u64;
    type Resp = u64;
    async fn serve(self, ctx: tarpc::context::Context, body: u64) -> Result<u64, ServerError> {
        let dl = clock::offset_of(ctx.deadline);
        let tc: Tc = ctx.trace_context.into();
        let cur = clock::offset_of(tarpc::context::current().deadline);
        self.shared.started.borrow_mut().insert((self.hop, body), (dl, tc, cur));
        self.hist.push(Ev::Note {
            text: format!(
                "HopHandlerStart hop={} body={body} deadline_ns={dl} trace_id={} span_id={} sampled={} current_deadline_ns={cur}",
                self.hop, tc.trace_id, tc.span_id, tc.sampled
            ),
        });
        let mut g = HandlerGuard { hop: self.hop, body, shared: self.shared.clone(), hist: self.hist.clone(), done: false };
        let owned: Option<Channel<u64, u64>> = self.next_once.as_ref().and_then(|c| c.borrow_mut().take());
        let nested = |r: Result<u64, tarpc::client::RpcError>| match r {
            Ok(v) => Ok(v + 1),
            Err(tarpc::client::RpcError::Server(e)) => Err(e),
            Err(e) => Err(ServerError::new(std::io::ErrorKind::Other, format!("nested:{}", short(&e)))),
        };
        let r = match (&owned, &self.next) {
            // `owned` lives in this future: it is dropped with it, after the call future
            (Some(ch), _) => nested(ch.call(ctx, body).await),
            (None, Some(ch)) => nested(ch.call(ctx, body).await),
            (None, None) => {
                self.shared.leaf_running.borrow_mut().push(body);
                LeafFut { hop: self.hop, body, shared: self.shared.clone(), hist: self.hist.clone(), done: false }.await
            }
        };
        g.done = true;
        r
    }
}

fn short(e: &tarpc::client::RpcError) -> &'static str {
    use tarpc::client::RpcError::*;
    match e {
        Shutdown => "Shutdown",
        Send(_) => "Send",
        Channel(_) => "Channel",
        DeadlineExceeded => "DeadlineExceeded",
        Server(_) => "Server",
    }
}

type Yq = Rc<RefCell<VecDeque<(usize, InFlightRequest<u64, u64>)>>>;

struct HopConsumer {
    hop: usize,
    requests: Pin<Box<Requests<BaseChannel<u64, u64, STr>>>>,
    out: Yq,
    hist: Hist,
    errored: bool,
}
impl Future for HopConsumer {
    type Output = ();
    fn poll(mut self: Pin<&mut Self>, cx: &mut Context<'_>) -> Poll<()> {
        if self.errored {
            return Poll::Pending;
        }
        let this = &mut *self;
        loop {
            match this.requests.as_mut().poll_next(cx) {
                Poll::Ready(Some(Ok(req))) => this.out.borrow_mut().push_back((this.hop, req)),
                Poll::Ready(Some(Err(e))) => {
                    this.hist.push(Ev::ReqStreamErr { hop: this.hop, err: crate::engines::client::channel_err_name(&e) });
                    this.errored = true;
                    return Poll::Pending;
                }
                Poll::Ready(None) => {
                    this.hist.push(Ev::ReqStreamEnd { hop: this.hop });
                    return Poll::Ready(());
                }
                Poll::Pending => return Poll::Pending,
            }
        }
    }
}

struct HopDispatch {
    hop: usize,
    d: Pin<Box<tarpc::client::RequestDispatch<u64, u64, CTr>>>,
    hist: Hist,
}
impl Future for HopDispatch {
    type Output = ();
    fn poll(mut self: Pin<&mut Self>, cx: &mut Context<'_>) -> Poll<()> {
        match self.d.as_mut().poll(cx) {
            Poll::Pending => Poll::Pending,
            Poll::Ready(r) => {
                let hop = self.hop;
                self.hist.push(Ev::DispatchEnd { hop, result: r.map_err(|e| crate::engines::client::channel_err_name(&e)) });
                Poll::Ready(())
            }
        }
    }
}

#[derive(Clone, Debug, Serialize)]
pub struct HeadCall {
    pub call: usize,
    pub task: TaskId,
    pub body: u64,
    #[serde(serialize_with = "crate::sim::hist::ser_str")]
    pub deadline_ns: i128,
    pub trace: Tc,
    pub created_ns: u64,
}

pub struct ChainSim {
    pub cfg: ChainCfg,
    pub hist: Hist,
    pub exec: Exec,
    pub head: Rc<Channel<u64, u64>>,
    pub shared: Rc<ChainShared>,
    yq: Yq,
    serves: Vec<ChainServe>,
    pub calls: RefCell<Vec<HeadCall>>,
    pub states: Rc<RefCell<Vec<(Option<(usize, u64, Outcome)>, Option<(usize, u64)>)>>>,
    pub livelock: Cell<bool>,
    pub panics: RefCell<Vec<(TaskId, String)>>,
    pub noops: Cell<u32>,
}

pub const CH_BODY_BASE: u64 = 20_000;

impl ChainSim {
    pub fn new(cfg: ChainCfg, hist: Hist) -> Rc<Self> {
        let exec = Exec::new();
        let shared = Rc::new(ChainShared::default());
        let yq: Yq = Rc::new(RefCell::new(VecDeque::new()));
        let depth = cfg.depth.clamp(1, 3);
        let mut clients: Vec<Rc<Channel<u64, u64>>> = vec![];
        let mut owned: Vec<Option<Rc<RefCell<Option<Channel<u64, u64>>>>>> = vec![];
        let mut server_trs: Vec<STr> = vec![];
        for k in 0..depth {
            let (c, s) = make_link(cfg.medium, k, &hist);
            let tarpc::client::NewClient { client, dispatch } = tarpc::client::new(tarpc::client::Config::default(), c);
            exec.spawn(format!("dispatch{k}"), Box::pin(HopDispatch { hop: k, d: Box::pin(dispatch), hist: hist.clone() }));
            if cfg.sole_owner && k > 0 {
                // no other handle is kept anywhere
                owned.push(Some(Rc::new(RefCell::new(Some(client)))));
            } else {
                owned.push(None);
                clients.push(Rc::new(client));
            }
            server_trs.push(s);
        }
        let mut serves = vec![];
        for (k, s) in server_trs.into_iter().enumerate() {
            let (next, next_once) = if cfg.sole_owner { (None, owned.get_mut(k + 1).and_then(|o| o.take())) } else { (clients.get(k + 1).cloned(), None) };
            serves.push(ChainServe { hop: k, next, next_once, shared: shared.clone(), hist: hist.clone() });
            let requests = BaseChannel::with_defaults(s).requests();
            exec.spawn(
                format!("consumer{k}"),
                Box::pin(HopConsumer { hop: k, requests: Box::pin(requests), out: yq.clone(), hist: hist.clone(), errored: false }),
            );
        }
        Rc::new(ChainSim {
            cfg,
            hist,
            exec,
            head: clients[0].clone(),
            shared,
            yq,
            serves,
            calls: RefCell::new(vec![]),
            states: Rc::new(RefCell::new(vec![])),
            livelock: Cell::new(false),
            panics: RefCell::new(vec![]),
            noops: Cell::new(0),
        })
    }

    fn pick(sel: u16, n: usize) -> usize {
        ((sel as usize) * n) >> 16
    }

    fn after_poll(&self) {
        loop {
            let r = self.yq.borrow_mut().pop_front();
            let Some((hop, req)) = r else { break };
            let body = req.get().message;
            let id = req.get().id;
            self.hist.push(Ev::Note { text: format!("HopYield hop={hop} body={body} id={id}") });
            let serve = self.serves[hop].clone();
            self.exec.spawn(format!("handler{hop}:{body}"), Box::pin(req.execute(serve)));
        }
    }

    pub fn poll_task(&self, t: TaskId) -> PollOut {
        self.hist.0.cur_task.set(Some(t));
        self.hist.0.poll_seq.set(self.hist.0.poll_seq.get() + 1);
        self.hist.push(Ev::PollStart { task: t, coop: false });
        let out = self.exec.poll(t);
        self.hist.0.cur_task.set(None);
        let o = match &out {
            PollOut::Pending => "Pending".to_string(),
            PollOut::Ready => "Ready".to_string(),
            PollOut::Panicked(m) => {
                self.panics.borrow_mut().push((t, m.clone()));
                format!("Panicked: {m}")
            }
        };
        self.hist.push(Ev::PollEnd { task: t, out: o, woken: self.exec.is_woken(t) });
        self.after_poll();
        out
    }

    pub async fn drain(&self) {
        let mut steps = 0u64;
        loop {
            loop {
                let w = self.exec.woken();
                if w.is_empty() {
                    break;
                }
                self.poll_task(w[0]);
                steps += 1;
                if steps > MAX_STEPS {
                    self.livelock.set(true);
                    return;
                }
            }
            tokio::task::yield_now().await;
            if self.exec.woken().is_empty() {
                break;
            }
        }
        self.hist.push(Ev::Quiescent { probes: Default::default() });
    }

    pub fn pending_calls(&self) -> Vec<usize> {
        let st = self.states.borrow();
        (0..st.len()).filter(|&i| st[i].0.is_none() && st[i].1.is_none()).collect()
    }

    pub async fn apply(self: &Rc<Self>, op: &ChOp) {
        self.hist.push(Ev::Env { op: format!("{op:?}") });
        match op {
            ChOp::Step { sel } => {
                let w = self.exec.woken();
                if w.is_empty() {
                    self.noops.set(self.noops.get() + 1);
                } else {
                    self.poll_task(w[Self::pick(*sel, w.len())]);
                }
            }
            ChOp::Drain => self.drain().await,
            ChOp::Call { dl, trace, sampled } => {
                let call = self.calls.borrow().len();
                let body = CH_BODY_BASE + call as u64;
                let now = std::time::Instant::now();
                let mut deadline = match dl {
                    Dl::InUs(us) => now + Duration::from_micros(*us),
                    Dl::PastUs(us) => now - Duration::from_micros(*us),
                    Dl::InSecs(s) => now + Duration::from_secs(*s),
                };
                let cap = clock::instant_at(crate::engines::client::SUPPORTED_SPAN_SECS / 4 * 1_000_000_000);
                if deadline > cap {
                    deadline = cap;
                }
                let tc = Tc {
                    trace_id: 0x3000_0000_0000_0000_0000_0000_0000_0000u128 + ((*trace as u128) << 40) + call as u128 + 1,
                    span_id: 0x9000_0000 + call as u64,
                    sampled: *sampled,
                };
                let mut ctx = tarpc::context::current();
                ctx.deadline = deadline;
                ctx.trace_context = tc.to_tarpc();
                let deadline_ns = clock::offset_of(deadline);
                let h = self.head.clone();
                let states = self.states.clone();
                states.borrow_mut().push((None, None));
                let hist = self.hist.clone();
                let fut = Box::pin(async move {
                    let r = h.call(ctx, body).await;
                    let o = outcome_of(r);
                    let seq = hist.push(Ev::CallResolved { call, outcome: o.clone() });
                    states.borrow_mut()[call].0 = Some((seq, clock::now_ns(), o));
                });
                let task = self.exec.spawn(format!("call{call}"), fut);
                self.hist.push(Ev::CallCreated { call, body, deadline_ns, trace: tc, handle: 0 });
                self.calls.borrow_mut().push(HeadCall { call, task, body, deadline_ns, trace: tc, created_ns: clock::now_ns() });
            }
            ChOp::DropCall { sel } => {
                let p = self.pending_calls();
                if p.is_empty() {
                    self.noops.set(self.noops.get() + 1);
                } else {
                    let call = p[Self::pick(*sel, p.len())];
                    let task = self.calls.borrow()[call].task;
                    if self.exec.state(task) == TaskState::Alive {
                        let seq = self.hist.push(Ev::CallDropped { call });
                        self.states.borrow_mut()[call].1 = Some((seq, clock::now_ns()));
                        if let Some(m) = self.exec.drop_task(task) {
                            self.panics.borrow_mut().push((task, format!("in drop: {m}")));
                        }
                    }
                }
            }
            ChOp::Advance { us } => clock::advance(Duration::from_micros(*us)).await,
            ChOp::CompleteLeaf { sel, err } => {
                let running: Vec<u64> = {
                    let r = self.shared.leaf_running.borrow();
                    let c = self.shared.completion.borrow();
                    let f = self.shared.finished.borrow();
                    let leaf = self.cfg.depth.clamp(1, 3) - 1;
                    r.iter().copied().filter(|b| !c.contains_key(b) && !f.contains_key(&(leaf, *b))).collect()
                };
                if running.is_empty() {
                    self.noops.set(self.noops.get() + 1);
                } else {
                    let b = running[Self::pick(*sel, running.len())];
                    self.complete(b, *err);
                }
            }
            ChOp::CompleteAllLeaves => {
                let running: Vec<u64> = {
                    let r = self.shared.leaf_running.borrow();
                    let c = self.shared.completion.borrow();
                    r.iter().copied().filter(|b| !c.contains_key(b)).collect()
                };
                for b in running {
                    self.complete(b, false);
                }
            }
        }
    }

    fn complete(&self, body: u64, err: bool) {
        let res = if err { Err(format!("leaf{body}")) } else { Ok(body * 10) };
        self.hist.push(Ev::Note { text: format!("LeafCompleted body={body} result={res:?}") });
        self.shared.completion.borrow_mut().insert(body, res);
        if let Some(w) = self.shared.wakers.borrow_mut().remove(&body) {
            w.wake();
        }
    }
}

pub struct ChainRun {
    pub cfg: ChainCfg,
    pub recs: Vec<Rec>,
    pub calls: Vec<HeadCall>,
    pub states: Vec<(Option<(usize, u64, Outcome)>, Option<(usize, u64)>)>,
    pub started: BTreeMap<(usize, u64), (i128, Tc, i128)>,
    pub finished: BTreeMap<(usize, u64), bool>,
    pub panics: Vec<(TaskId, String)>,
    pub livelock: bool,
}

pub fn run_chain(cfg: &ChainCfg, ops: &[ChOp]) -> ChainRun {
    clock::enable_and_reset();
    tarpc::verif::set_yield_hook(None);
    let _sub = subscriber_guard(cfg.subscriber);
    let rt = new_runtime();
    let hist = Hist::new();
    let out = rt.block_on(tokio::task::unconstrained(async {
        let sim = ChainSim::new(cfg.clone(), hist.clone());
        for op in ops {
            if sim.livelock.get() {
                break;
            }
            sim.apply(op).await;
        }
        let run = ChainRun {
            cfg: cfg.clone(),
            recs: hist.snapshot(),
            calls: sim.calls.borrow().clone(),
            states: sim.states.borrow().clone(),
            started: sim.shared.started.borrow().clone(),
            finished: sim.shared.finished.borrow().clone(),
            panics: sim.panics.borrow().clone(),
            livelock: sim.livelock.get(),
        };
        sim.yq.borrow_mut().clear();
        sim.exec.drop_all();
        run
    }));
    drop(rt);
    clock::disable();
    out
}
