//! Engine B: a real `tarpc::server::BaseChannel` (optionally behind `max_concurrent_requests`)
//! over a scripted transport; the environment plays the client and the application's handlers.

use crate::engines::client::{new_runtime, subscriber_guard, Dl};
use crate::sim::clock;
use crate::sim::exec::{Exec, PollOut, TaskId, TaskState};
use crate::sim::hist::{Ev, Hist, IoOp, IoRes, Msg, Probes, Rec, Tc};
use crate::sim::transport::{sim_transport, SimHandle, SimTransport, UNLIMITED};
use futures::{Future, Stream};
use serde::{Deserialize, Serialize};
use std::cell::{Cell, RefCell};
use std::collections::{BTreeMap, VecDeque};
use std::pin::Pin;
use std::rc::Rc;
use std::task::{Context, Poll, Waker};
use std::time::Duration;
use tarpc::server::limits::requests_per_channel::MaxRequests;
use tarpc::server::{BaseChannel, Channel, InFlightRequest, Requests, Serve};
use tarpc::{ClientMessage, Request, Response, ServerError};

pub type STransport = SimTransport<Response<u64>, ClientMessage<u64>>;
pub type SHandle = SimHandle<Response<u64>, ClientMessage<u64>>;

#[derive(Clone, Debug, Serialize, Deserialize, PartialEq, Eq)]
pub struct ServerCfg {
    pub limit: Option<usize>,
    pub resp_buffer: usize,
    pub independent: bool,
    pub cap: usize,
    /// use `requests().execute(serve)` instead of driving `Requests` by hand
    pub adaptor: bool,
    pub subscriber: u8,
}

#[derive(Clone, Copy, Debug, Serialize, Deserialize, PartialEq, Eq)]
pub enum IdKind {
    /// next small sequential id
    Fresh,
    /// a random-looking 64-bit id never used before (derived from the value)
    FreshWide(u64),
    /// id of a request still in flight (model)
    DupInFlight(u16),
    /// id whose response has been written
    ReuseCompleted(u16),
}

#[derive(Clone, Debug, Serialize, Deserialize, PartialEq, Eq)]
pub enum SOp {
    Step { sel: u16 },
    /// Like Step, with only `budget` units of tokio's cooperative-scheduling budget left (see COp::StepCoop)
    StepCoop { sel: u16, budget: u8 },
    Drain,
    SendRequest { idk: IdKind, dl: Dl, trace: u16, sampled: bool, hold: bool },
    /// cancel an id: sel over ids the model believes in flight; unknown = Some(k) sends an id never used
    SendCancel { sel: u16, unknown: Option<u8> },
    CompleteHandler { sel: u16, err: bool },
    DropHandler { sel: u16 },
    StartHeld { sel: u16 },
    DropHeld { sel: u16 },
    Advance { us: u64 },
    AdvanceTo { sel: u16, delta_us: i32 },
    Budget { n: u8 },
    Fault { op: u8, k: u8 },
    PeerClose,
    DropChannel,
    // closing helpers
    CompleteAll,
    StartAllHeld,
    AdvancePastDeadlines,
    /// restore sink budget if the known-finding region F6 would be entered by the next cancel/expiry
    Marker(u8),
}

#[derive(Clone, Debug, Serialize)]
pub struct Inst {
    pub inst: usize,
    pub id: u64,
    pub body: u64,
    #[serde(serialize_with = "crate::sim::hist::ser_str")]
    pub deadline_ns: i128,
    pub trace: Tc,
    pub hold: bool,
    pub sent_seq: usize,
    pub sent_ns: u64,
    pub kind: &'static str,
}

#[derive(Default)]
pub struct HandlerShared {
    /// body -> inst
    pub by_body: RefCell<BTreeMap<u64, usize>>,
    pub completion: RefCell<BTreeMap<usize, Result<u64, String>>>,
    pub wakers: RefCell<BTreeMap<usize, Waker>>,
    pub started: RefCell<BTreeMap<usize, (i128, Tc)>>,
    pub polls: RefCell<BTreeMap<usize, u32>>,
    pub finished: RefCell<BTreeMap<usize, bool>>, // inst -> completed normally (true) / dropped unfinished (false)
}

#[derive(Clone)]
pub struct ScriptedServe {
    pub shared: Rc<HandlerShared>,
    pub hist: Hist,
}

struct HandlerFut {
    inst: usize,
    shared: Rc<HandlerShared>,
    hist: Hist,
    done: bool,
}

impl Future for HandlerFut {
    type Output = Result<u64, ServerError>;
    fn poll(mut self: Pin<&mut Self>, cx: &mut Context<'_>) -> Poll<Self::Output> {
        let inst = self.inst;
        *self.shared.polls.borrow_mut().entry(inst).or_insert(0) += 1;
        self.hist.push(Ev::HandlerPolled { inst });
        let c = self.shared.completion.borrow().get(&inst).cloned();
        match c {
            Some(r) => {
                self.done = true;
                self.shared.finished.borrow_mut().insert(inst, true);
                self.hist.push(Ev::HandlerCompleted { inst, result: r.clone() });
                Poll::Ready(r.map_err(|d| ServerError::new(std::io::ErrorKind::Other, d)))
            }
            None => {
                self.shared.wakers.borrow_mut().insert(inst, cx.waker().clone());
                Poll::Pending
            }
        }
    }
}

impl Drop for HandlerFut {
    fn drop(&mut self) {
        if !self.done {
            self.shared.finished.borrow_mut().insert(self.inst, false);
            self.hist.push(Ev::HandlerDropped { inst: self.inst, finished: false });
        }
    }
}

impl Serve for ScriptedServe {
    type Req = u64;
    type Resp = u64;
    async fn serve(self, ctx: tarpc::context::Context, req: u64) -> Result<u64, ServerError> {
        let inst = *self.shared.by_body.borrow().get(&req).expect("body known");
        let dl = clock::offset_of(ctx.deadline);
        let tc: Tc = ctx.trace_context.into();
        self.shared.started.borrow_mut().insert(inst, (dl, tc));
        self.hist.push(Ev::HandlerStarted { inst });
        self.hist.push(Ev::Note { text: format!("handler {inst} ctx deadline_ns={dl} trace={tc:?}") });
        HandlerFut { inst, shared: self.shared.clone(), hist: self.hist.clone(), done: false }.await
    }
}

pub trait TimerProbe {
    fn timers(&self) -> usize;
}
impl TimerProbe for BaseChannel<u64, u64, STransport> {
    fn timers(&self) -> usize {
        self.verif_deadline_timers()
    }
}
impl<C: TimerProbe> TimerProbe for MaxRequests<C> {
    fn timers(&self) -> usize {
        self.get_ref().timers()
    }
}

#[derive(Default)]
pub struct ServerProbes {
    pub in_flight: Cell<Option<usize>>,
    pub timers: Cell<Option<usize>>,
    pub stream_err: RefCell<Option<String>>,
    pub stream_ended: Cell<bool>,
}

type Yielded = Rc<RefCell<VecDeque<InFlightRequest<u64, u64>>>>;
type YieldedFuts = Rc<RefCell<VecDeque<Pin<Box<dyn Future<Output = ()>>>>>>;

pub type Base = BaseChannel<u64, u64, STransport>;
pub type Lim = MaxRequests<Base>;

macro_rules! consumer_impl {
    ($name:ident, $ch:ty) => {
        /// Consumer of a `Requests` stream driven by hand.
        struct $name {
            requests: Pin<Box<Requests<$ch>>>,
            out: Yielded,
            probes: Rc<ServerProbes>,
            hist: Hist,
            hop: usize,
            errored: bool,
        }

        impl Future for $name {
            type Output = ();
            fn poll(mut self: Pin<&mut Self>, cx: &mut Context<'_>) -> Poll<()> {
                if self.errored {
                    return Poll::Pending;
                }
                let this = &mut *self;
                let r = loop {
                    match this.requests.as_mut().poll_next(cx) {
                        Poll::Ready(Some(Ok(req))) => {
                            this.out.borrow_mut().push_back(req);
                        }
                        Poll::Ready(Some(Err(e))) => {
                            let name = crate::engines::client::channel_err_name(&e);
                            *this.probes.stream_err.borrow_mut() = Some(name.clone());
                            this.hist.push(Ev::ReqStreamErr { hop: this.hop, err: name });
                            this.errored = true;
                            break Poll::Pending;
                        }
                        Poll::Ready(None) => {
                            this.probes.stream_ended.set(true);
                            this.hist.push(Ev::ReqStreamEnd { hop: this.hop });
                            break Poll::Ready(());
                        }
                        Poll::Pending => break Poll::Pending,
                    }
                };
                let ch = this.requests.as_ref().get_ref().channel();
                this.probes.in_flight.set(Some(ch.in_flight_requests()));
                this.probes.timers.set(Some(ch.timers()));
                r
            }
        }
    };
}
consumer_impl!(ConsumerBase, Base);
consumer_impl!(ConsumerLim, Lim);

/// Consumer of the `execute()` adaptor stream.
struct AdaptorConsumer {
    stream: Pin<Box<dyn Stream<Item = Pin<Box<dyn Future<Output = ()>>>>>>,
    out: YieldedFuts,
    probes: Rc<ServerProbes>,
    hist: Hist,
    hop: usize,
}

impl Future for AdaptorConsumer {
    type Output = ();
    fn poll(mut self: Pin<&mut Self>, cx: &mut Context<'_>) -> Poll<()> {
        loop {
            match self.stream.as_mut().poll_next(cx) {
                Poll::Ready(Some(f)) => self.out.borrow_mut().push_back(f),
                Poll::Ready(None) => {
                    self.probes.stream_ended.set(true);
                    self.hist.push(Ev::ReqStreamEnd { hop: self.hop });
                    return Poll::Ready(());
                }
                Poll::Pending => return Poll::Pending,
            }
        }
    }
}

pub const SBODY_BASE: u64 = 5_000;
pub const SPAYLOAD_BASE: u64 = 9_000_000;

pub struct ServerSim {
    pub cfg: ServerCfg,
    pub hist: Hist,
    pub exec: Exec,
    pub tr: SHandle,
    pub hop: usize,
    pub consumer_task: TaskId,
    pub shared: Rc<HandlerShared>,
    pub probes: Rc<ServerProbes>,
    yielded: Yielded,
    yielded_futs: YieldedFuts,
    pub insts: RefCell<Vec<Inst>>,
    /// inst -> handler task
    pub handler_tasks: RefCell<BTreeMap<usize, TaskId>>,
    pub held: RefCell<BTreeMap<usize, InFlightRequest<u64, u64>>>,
    /// adaptor mode: tasks whose inst is not yet known
    pub anon_tasks: RefCell<Vec<TaskId>>,
    /// model: ids the environment believes in flight (read and not ended) -> inst
    pub model_in_flight: RefCell<BTreeMap<u64, usize>>,
    pub completed_ids: RefCell<Vec<u64>>,
    pub responses: RefCell<Vec<Response<u64>>>,
    next_small_id: Cell<u64>,
    payload_ctr: Cell<u64>,
    pub noops: Cell<u32>,
    pub livelock: Cell<bool>,
    pub panics: RefCell<Vec<(TaskId, String)>>,
    pub excluded_known: Cell<u32>,
    /// steer around finding F6 (limit ∧ at limit ∧ sink not ready) when set
    pub avoid_f6: Cell<bool>,
    pub channel_dropped: Cell<bool>,
    pub internal_pending: Cell<u32>,
    pub last_unblocked_poll_ns: Cell<u64>,
    pub answered_insts: RefCell<std::collections::BTreeSet<usize>>,
    tr_id: u8,
    /// ground truth reconstructed from the transport log, in order: id -> instance the channel tracks
    real_tracked: RefCell<BTreeMap<u64, usize>>,
    /// instance -> true when the channel accepted it, false when it ignored it as a duplicate (absent: unread)
    fate: RefCell<BTreeMap<usize, bool>>,
    /// ids for which the log cannot tell whether a request was accepted or ignored (the tracked one may
    /// have expired): never duplicated or reused again
    poisoned_ids: RefCell<std::collections::BTreeSet<u64>>,
    scan_cursor: Cell<usize>,
}

impl ServerSim {
    pub fn new(cfg: ServerCfg, hist: Hist, hop: usize, tr_id: u8) -> Rc<Self> {
        let (transport, tr) =
            sim_transport::<Response<u64>, ClientMessage<u64>>(tr_id, &hist, cfg.independent, cfg.cap);
        Self::with_transport(cfg, hist, hop, transport, tr)
    }

    pub fn with_transport(cfg: ServerCfg, hist: Hist, hop: usize, transport: STransport, tr: SHandle) -> Rc<Self> {
        let tr_id = tr.id();
        let exec = Exec::new();
        let shared = Rc::new(HandlerShared::default());
        let probes = Rc::new(ServerProbes::default());
        let yielded: Yielded = Rc::new(RefCell::new(VecDeque::new()));
        let yielded_futs: YieldedFuts = Rc::new(RefCell::new(VecDeque::new()));
        let scfg = tarpc::server::Config { pending_response_buffer: cfg.resp_buffer };
        let base = BaseChannel::new(scfg, transport);
        let serve = ScriptedServe { shared: shared.clone(), hist: hist.clone() };
        let fut: Pin<Box<dyn Future<Output = ()>>> = match (cfg.limit, cfg.adaptor) {
            (None, false) => Box::pin(ConsumerBase {
                requests: Box::pin(base.requests()),
                out: yielded.clone(),
                probes: probes.clone(),
                hist: hist.clone(),
                hop,
                errored: false,
            }),
            (Some(l), false) => Box::pin(ConsumerLim {
                requests: Box::pin(base.max_concurrent_requests(l).requests()),
                out: yielded.clone(),
                probes: probes.clone(),
                hist: hist.clone(),
                hop,
                errored: false,
            }),
            (None, true) => {
                let s = base.execute(serve.clone());
                let s = futures::StreamExt::map(s, |f| Box::pin(f) as Pin<Box<dyn Future<Output = ()>>>);
                Box::pin(AdaptorConsumer {
                    stream: Box::pin(s),
                    out: yielded_futs.clone(),
                    probes: probes.clone(),
                    hist: hist.clone(),
                    hop,
                })
            }
            (Some(l), true) => {
                let s = base.max_concurrent_requests(l).execute(serve.clone());
                let s = futures::StreamExt::map(s, |f| Box::pin(f) as Pin<Box<dyn Future<Output = ()>>>);
                Box::pin(AdaptorConsumer {
                    stream: Box::pin(s),
                    out: yielded_futs.clone(),
                    probes: probes.clone(),
                    hist: hist.clone(),
                    hop,
                })
            }
        };
        let consumer_task = exec.spawn("consumer", fut);
        Rc::new(ServerSim {
            cfg,
            hist,
            exec,
            tr,
            hop,
            consumer_task,
            shared,
            probes,
            yielded,
            yielded_futs,
            insts: RefCell::new(vec![]),
            handler_tasks: RefCell::new(BTreeMap::new()),
            held: RefCell::new(BTreeMap::new()),
            anon_tasks: RefCell::new(vec![]),
            model_in_flight: RefCell::new(BTreeMap::new()),
            completed_ids: RefCell::new(vec![]),
            responses: RefCell::new(vec![]),
            next_small_id: Cell::new(0),
            payload_ctr: Cell::new(0),
            noops: Cell::new(0),
            livelock: Cell::new(false),
            panics: RefCell::new(vec![]),
            excluded_known: Cell::new(0),
            avoid_f6: Cell::new(false),
            channel_dropped: Cell::new(false),
            internal_pending: Cell::new(0),
            last_unblocked_poll_ns: Cell::new(0),
            answered_insts: RefCell::new(Default::default()),
            tr_id,
            real_tracked: RefCell::new(BTreeMap::new()),
            fate: RefCell::new(BTreeMap::new()),
            poisoned_ids: RefCell::new(Default::default()),
            scan_cursor: Cell::new(0),
        })
    }

    fn noop(&self) {
        self.noops.set(self.noops.get() + 1);
    }
    fn pick(sel: u16, n: usize) -> usize {
        ((sel as usize) * n) >> 16
    }

    fn serve(&self) -> ScriptedServe {
        ScriptedServe { shared: self.shared.clone(), hist: self.hist.clone() }
    }

    /// After any poll: turn yielded requests into handler tasks / held requests, collect responses.
    fn after_poll(&self) {
        loop {
            let r = self.yielded.borrow_mut().pop_front();
            let Some(req) = r else { break };
            let body = req.get().message;
            let inst = *self.shared.by_body.borrow().get(&body).expect("body known");
            let (id, dl, tc) = (
                req.get().id,
                clock::offset_of(req.get().context.deadline),
                Tc::from(req.get().context.trace_context),
            );
            self.hist.push(Ev::ReqYielded { inst, id, deadline_ns: dl, trace: tc, hop: self.hop });
            let hold = self.insts.borrow()[inst].hold;
            if hold {
                self.held.borrow_mut().insert(inst, req);
            } else {
                self.start_handler(inst, req);
            }
        }
        loop {
            let f = self.yielded_futs.borrow_mut().pop_front();
            let Some(f) = f else { break };
            let t = self.exec.spawn("handler?", f);
            self.hist.push(Ev::Note { text: "AdaptorYield".into() });
            self.anon_tasks.borrow_mut().push(t);
        }
        self.collect_wire();
    }

    fn start_handler(&self, inst: usize, req: InFlightRequest<u64, u64>) {
        let serve = self.serve();
        let hist = self.hist.clone();
        let fut = Box::pin(async move {
            req.execute(serve).await;
            hist.push(Ev::ExecReturned { inst });
        });
        let t = self.exec.spawn(format!("handler{inst}"), fut);
        self.handler_tasks.borrow_mut().insert(inst, t);
    }

    /// Bring the environment's model in line with what the channel actually read and wrote (in log
    /// order): whether a request was accepted or ignored as a duplicate depends on whether its id was
    /// tracked *when it was read*, which the environment cannot know when it sends the request.
    fn sync_model(&self) {
        enum Obs {
            Req(u64, u64, u64),
            Cancel(u64),
            Resp(u64),
        }
        let start = self.scan_cursor.get();
        let me = self.tr_id;
        let obs: Vec<Obs> = self.hist.with(|recs| {
            recs[start.min(recs.len())..]
                .iter()
                .filter_map(|r| match &r.ev {
                    Ev::Io { tr, op: IoOp::Next, res: IoRes::Item(Msg::Request { id, body, .. }), .. } if *tr == me => {
                        Some(Obs::Req(*id, *body, r.t_ns))
                    }
                    Ev::Io { tr, op: IoOp::Next, res: IoRes::Item(Msg::Cancel { id, .. }), .. } if *tr == me => Some(Obs::Cancel(*id)),
                    Ev::Io { tr, op: IoOp::Send, sent: Some(Msg::Response { id, .. }), res: IoRes::Ok, .. } if *tr == me => {
                        Some(Obs::Resp(*id))
                    }
                    _ => None,
                })
                .collect()
        });
        self.scan_cursor.set(self.hist.len());
        for o in obs {
            match o {
                Obs::Req(id, body, t_ns) => {
                    let Some(&inst) = self.shared.by_body.borrow().get(&body) else { continue };
                    let tracked = self.real_tracked.borrow().get(&id).copied();
                    match tracked {
                        Some(other) if other != inst => {
                            if (t_ns as i128) >= self.insts.borrow()[other].deadline_ns {
                                // the tracked one may have expired: accepted or ignored, the log cannot tell
                                self.poisoned_ids.borrow_mut().insert(id);
                            }
                            self.fate.borrow_mut().insert(inst, false);
                            let mut m = self.model_in_flight.borrow_mut();
                            if m.get(&id) == Some(&inst) {
                                m.insert(id, other);
                            }
                        }
                        _ => {
                            self.real_tracked.borrow_mut().insert(id, inst);
                            self.fate.borrow_mut().insert(inst, true);
                            if self.insts.borrow()[inst].kind == "dup-in-flight" {
                                // sent as a duplicate, but the original had been answered by the time it was read
                                self.insts.borrow_mut()[inst].kind = "dup-accepted";
                                self.model_in_flight.borrow_mut().insert(id, inst);
                                self.completed_ids.borrow_mut().retain(|x| *x != id);
                            }
                        }
                    }
                }
                Obs::Cancel(id) => {
                    if let Some(inst) = self.real_tracked.borrow_mut().remove(&id) {
                        let mut m = self.model_in_flight.borrow_mut();
                        if m.get(&id) == Some(&inst) {
                            m.remove(&id);
                        }
                    }
                }
                Obs::Resp(id) => {
                    // a response the transport accepted (even if only buffered) ends the request: the
                    // channel forgets the id when it hands the response to the sink, not at the flush
                    let inst = self.real_tracked.borrow_mut().remove(&id);
                    let mut m = self.model_in_flight.borrow_mut();
                    let inst = match inst {
                        Some(i) => {
                            if m.get(&id) == Some(&i) {
                                m.remove(&id);
                            }
                            Some(i)
                        }
                        None => m.remove(&id),
                    };
                    if let Some(i) = inst {
                        self.answered_insts.borrow_mut().insert(i);
                        let mut c = self.completed_ids.borrow_mut();
                        if !m.contains_key(&id) && !c.contains(&id) {
                            c.push(id);
                        }
                    }
                }
            }
        }
    }

    pub fn collect_wire(&self) {
        self.sync_model();
        for m in self.tr.take_wire() {
            self.responses.borrow_mut().push(m);
        }
    }

    /// Known finding F6: with a request limit, at the limit and with the sink not ready, the
    /// limiter does not poll the inner channel, so cancellations and expirations are not processed.
    /// When asked to, steer around exactly that region (and count it) just before the channel is polled.
    fn steer_f6_at_poll(&self) {
        let Some(l) = self.cfg.limit else { return };
        if !self.avoid_f6.get() || !self.tr.write_blocked() {
            return;
        }
        let count = self.f6_upper();
        if count >= l {
            self.tr.set_budget(UNLIMITED);
            self.excluded_known.set(self.excluded_known.get() + 1);
            self.hist.push(Ev::Note { text: "steered around F6 (limit, at limit, sink not ready): sink budget restored".into() });
        }
    }

    pub fn poll_task(&self, t: TaskId) -> PollOut {
        self.poll_task_c(t, false)
    }

    /// `constrained`: poll under what is left of tokio's cooperative budget (see `SOp::StepCoop`).
    pub fn poll_task_c(&self, t: TaskId, constrained: bool) -> PollOut {
        if t == self.consumer_task {
            self.steer_f6_at_poll();
            if !self.tr.write_blocked() {
                self.last_unblocked_poll_ns.set(clock::now_ns());
                self.internal_pending.set(0);
            }
        }
        self.hist.0.cur_task.set(Some(t + 1000 * self.hop));
        self.hist.0.poll_seq.set(self.hist.0.poll_seq.get() + 1);
        let start = self.hist.push(Ev::PollStart { task: t + 1000 * self.hop, coop: constrained });
        let out = if constrained {
            self.exec.poll(t)
        } else {
            let mut f = std::pin::pin!(tokio::task::unconstrained(std::future::poll_fn(|_| Poll::Ready(self.exec.poll(t)))));
            let w = futures::task::noop_waker();
            let mut cx = Context::from_waker(&w);
            match f.as_mut().poll(&mut cx) {
                Poll::Ready(o) => o,
                Poll::Pending => unreachable!("poll_fn returns Ready"),
            }
        };
        if self.anon_tasks.borrow().contains(&t) {
            let started: Option<usize> = self.hist.with(|r| {
                r[start..].iter().find_map(|x| if let Ev::HandlerStarted { inst } = &x.ev { Some(*inst) } else { None })
            });
            if let Some(inst) = started {
                self.anon_tasks.borrow_mut().retain(|x| *x != t);
                self.handler_tasks.borrow_mut().insert(inst, t);
            }
        }
        self.hist.0.cur_task.set(None);
        let o = match &out {
            PollOut::Pending => "Pending".to_string(),
            PollOut::Ready => "Ready".to_string(),
            PollOut::Panicked(m) => {
                self.panics.borrow_mut().push((t, m.clone()));
                format!("Panicked: {m}")
            }
        };
        self.hist.push(Ev::PollEnd { task: t + 1000 * self.hop, out: o, woken: constrained || self.exec.is_woken(t) });
        self.after_poll();
        self.steer_f6_at_poll();
        out
    }

    pub fn step(&self, sel: u16) -> bool {
        let w = self.exec.woken();
        if w.is_empty() {
            self.noop();
            return false;
        }
        self.poll_task(w[Self::pick(sel, w.len())]);
        true
    }

    pub fn probes_now(&self) -> Probes {
        Probes {
            server_in_flight: self.probes.in_flight.get(),
            server_timers: self.probes.timers.get(),
            inbound_len: self.tr.inbound_len(),
            buffered: self.tr.buffered(),
            budget_zero: self.tr.budget() == 0,
            dispatch_alive: self.exec.state(self.consumer_task) == TaskState::Alive
                && self.probes.stream_err.borrow().is_none(),
            ..Default::default()
        }
    }

    pub async fn drain(&self) {
        let mut steps = 0u64;
        loop {
            loop {
                let w = self.exec.woken();
                if w.is_empty() {
                    break;
                }
                self.poll_task(w[0]);
                steps += 1;
                if steps > crate::engines::client::MAX_STEPS {
                    self.livelock.set(true);
                    self.hist.push(Ev::Note { text: "livelock: step bound exceeded in drain".into() });
                    return;
                }
            }
            tokio::task::yield_now().await;
            if self.exec.woken().is_empty() {
                break;
            }
        }
        self.hist.push(Ev::Quiescent { probes: self.probes_now() });
    }

    fn mk_ctx(deadline: std::time::Instant, tc: Tc) -> tarpc::context::Context {
        let mut ctx = tarpc::context::current();
        ctx.deadline = deadline;
        ctx.trace_context = tc.to_tarpc();
        ctx
    }

    pub fn used_ids(&self) -> Vec<u64> {
        self.insts.borrow().iter().map(|i| i.id).collect()
    }

    /// F6 region: limit configured ∧ in-flight (model) >= limit ∧ sink not ready.
    /// Upper bound of what the channel itself counts as in flight: the model's set, plus requests the
    /// environment already ended from its side (Cancel delivered but unread, handler or request object
    /// dropped) that the channel has not processed yet.
    fn f6_upper(&self) -> usize {
        let cancels_inbound =
            self.tr.st.borrow().inbound.iter().filter(|m| matches!(m, Ok(ClientMessage::Cancel { .. }))).count();
        self.model_in_flight.borrow().len().max(self.probes.in_flight.get().unwrap_or(0)) + cancels_inbound + self.internal_pending.get() as usize
    }

    pub fn in_f6_region(&self) -> bool {
        match self.cfg.limit {
            Some(l) => self.f6_upper() >= l && self.tr.write_blocked(),
            None => false,
        }
    }

    fn steer_f6(&self) {
        if self.avoid_f6.get() && self.cfg.limit.is_some() && self.tr.budget() != UNLIMITED {
            // restore the sink so that cancels / expirations are processed (finding F6 excluded by construction)
            if self.f6_upper() >= self.cfg.limit.unwrap() {
                self.tr.set_budget(UNLIMITED);
                self.excluded_known.set(self.excluded_known.get() + 1);
                self.hist.push(Ev::Note { text: "steered around F6: sink budget restored".into() });
            }
        }
    }

    pub fn send_request(&self, idk: IdKind, dl: Dl, trace: u16, sampled: bool, hold: bool) {
        let used = self.used_ids();
        let (id, kind) = match idk {
            IdKind::Fresh => {
                let mut id = self.next_small_id.get();
                while used.contains(&id) {
                    id += 1;
                }
                self.next_small_id.set(id + 1);
                (id, "fresh")
            }
            IdKind::FreshWide(v) => {
                let mut id = v | (1 << 40);
                while used.contains(&id) {
                    id = id.wrapping_add(1);
                }
                (id, "fresh-wide")
            }
            IdKind::DupInFlight(sel) => {
                let m = self.model_in_flight.borrow();
                if m.is_empty() {
                    drop(m);
                    self.noop();
                    return;
                }
                // only ids that are certainly still in flight (deadline well ahead)
                let now = clock::now_ns() as i128;
                let insts = self.insts.borrow();
                let poisoned = self.poisoned_ids.borrow();
                let ids: Vec<u64> = m
                    .iter()
                    .filter(|(k, i)| insts[**i].deadline_ns > now + 10_000_000 && !poisoned.contains(k))
                    .map(|(k, _)| *k)
                    .collect();
                drop(poisoned);
                if ids.is_empty() {
                    drop(insts);
                    drop(m);
                    self.noop();
                    return;
                }
                (ids[Self::pick(sel, ids.len())], "dup-in-flight")
            }
            IdKind::ReuseCompleted(sel) => {
                let c = self.completed_ids.borrow();
                let inflight = self.model_in_flight.borrow();
                // reusable = every earlier instance with this id was answered on the wire and has
                // left nothing behind (no held request object, no live handler task)
                let insts = self.insts.borrow();
                let answered = self.answered_insts.borrow();
                let held = self.held.borrow();
                let tasks = self.handler_tasks.borrow();
                let fate = self.fate.borrow();
                let poisoned = self.poisoned_ids.borrow();
                let cands: Vec<u64> = c
                    .iter()
                    .copied()
                    .filter(|id| !inflight.contains_key(id) && !poisoned.contains(id))
                    .filter(|id| {
                        insts.iter().filter(|x| x.id == *id).all(|x| {
                            // read already, and either ignored as a duplicate or accepted and answered
                            matches!(fate.get(&x.inst), Some(false)) && tasks.get(&x.inst).is_none()
                                || matches!(fate.get(&x.inst), Some(true)) && answered.contains(&x.inst)
                                && !held.contains_key(&x.inst)
                                && tasks.get(&x.inst).map_or(true, |t| self.exec.state(*t) != TaskState::Alive)
                        })
                    })
                    .collect();
                drop(tasks);
                drop(held);
                drop(answered);
                drop(insts);
                if cands.is_empty() {
                    drop(c);
                    drop(inflight);
                    self.noop();
                    return;
                }
                (cands[Self::pick(sel, cands.len())], "reuse-completed")
            }
        };
        let inst = self.insts.borrow().len();
        let body = SBODY_BASE + inst as u64;
        let now = std::time::Instant::now();
        let mut deadline = match dl {
            Dl::InUs(us) => now + Duration::from_micros(us),
            Dl::PastUs(us) => now - Duration::from_micros(us),
            Dl::InSecs(s) => now + Duration::from_secs(s),
        };
        let cap = clock::instant_at(crate::engines::client::SUPPORTED_SPAN_SECS * 1_000_000_000);
        if deadline > cap {
            deadline = cap;
            self.excluded_known.set(self.excluded_known.get() + 1);
        }
        let tc = Tc {
            trace_id: 0x2000_0000_0000_0000_0000_0000_0000_0000u128 + ((trace as u128) << 32) + inst as u128 + 1,
            span_id: 0x7000_0000 + inst as u64,
            sampled,
        };
        self.shared.by_body.borrow_mut().insert(body, inst);
        let deadline_ns = clock::offset_of(deadline);
        let seq = self.hist.push(Ev::Note {
            text: format!("ReqSent inst={inst} id={id} body={body} deadline_ns={deadline_ns} kind={kind} hold={hold}"),
        });
        self.insts.borrow_mut().push(Inst {
            inst,
            id,
            body,
            deadline_ns,
            trace: tc,
            hold,
            sent_seq: seq,
            sent_ns: clock::now_ns(),
            kind,
        });
        if kind != "dup-in-flight" {
            self.model_in_flight.borrow_mut().insert(id, inst);
            // only ids whose latest instance was answered on the wire count as "completed" (reusable)
            self.completed_ids.borrow_mut().retain(|x| *x != id);
        }
        self.tr.deliver(ClientMessage::Request(Request {
            context: Self::mk_ctx(deadline, tc),
            id,
            message: body,
        }));
    }

    pub fn send_cancel(&self, sel: u16, unknown: Option<u8>) {
        let id = match unknown {
            Some(k) => {
                let used = self.used_ids();
                let mut id = match k % 4 {
                    0 => u64::MAX,
                    1 => 0x7777_0000 + k as u64,
                    2 => u64::MAX - 7,
                    _ => 1 << 33,
                };
                while used.contains(&id) {
                    id = id.wrapping_sub(1);
                }
                id
            }
            None => {
                let m = self.model_in_flight.borrow();
                if m.is_empty() {
                    drop(m);
                    // cancel for a finished id, if any
                    let c = self.completed_ids.borrow();
                    if c.is_empty() {
                        drop(c);
                        self.noop();
                        return;
                    }
                    c[Self::pick(sel, c.len())]
                } else {
                    let ids: Vec<u64> = m.keys().copied().collect();
                    ids[Self::pick(sel, ids.len())]
                }
            }
        };
        let inst = self.model_in_flight.borrow_mut().remove(&id);
        self.hist.push(Ev::Note { text: format!("CancelSent id={id} inst={inst:?}") });
        let tc = inst.map(|i| self.insts.borrow()[i].trace).unwrap_or_default();
        self.tr.deliver(ClientMessage::Cancel { trace_context: tc.to_tarpc(), request_id: id });
    }

    fn running_insts(&self) -> Vec<usize> {
        let started = self.shared.started.borrow();
        let fin = self.shared.finished.borrow();
        let comp = self.shared.completion.borrow();
        started
            .keys()
            .copied()
            .filter(|i| !fin.contains_key(i) && !comp.contains_key(i))
            .collect()
    }

    pub fn complete_handler(&self, sel: u16, err: bool) {
        let r = self.running_insts();
        if r.is_empty() {
            self.noop();
            return;
        }
        let inst = r[Self::pick(sel, r.len())];
        self.complete_inst(inst, err);
    }

    pub fn complete_inst(&self, inst: usize, err: bool) {
        let n = self.payload_ctr.get();
        self.payload_ctr.set(n + 1);
        let p = SPAYLOAD_BASE + n;
        let res = if err { Err(format!("he{p}")) } else { Ok(p) };
        self.shared.completion.borrow_mut().insert(inst, res);
        let w = self.shared.wakers.borrow_mut().remove(&inst);
        if let Some(w) = w {
            w.wake();
        }
    }

    pub fn drop_handler(&self, sel: u16) {
        // drop a handler task midway (the application drops the execute future)
        let cands: Vec<(usize, TaskId)> = self
            .handler_tasks
            .borrow()
            .iter()
            .filter(|(_, t)| self.exec.state(**t) == TaskState::Alive)
            .map(|(i, t)| (*i, *t))
            .collect();
        if cands.is_empty() {
            self.noop();
            return;
        }
        let (inst, t) = cands[Self::pick(sel, cands.len())];
        self.internal_pending.set(self.internal_pending.get() + 1);
        self.hist.push(Ev::Note { text: format!("HandlerTaskDropped inst={inst}") });
        if let Some(m) = self.exec.drop_task(t) {
            self.panics.borrow_mut().push((t, format!("in drop: {m}")));
        }
        // the guard's cancel ends the request for the channel once it is polled
        let id = self.insts.borrow()[inst].id;
        let mut m = self.model_in_flight.borrow_mut();
        if m.get(&id) == Some(&inst) {
            m.remove(&id);
        }
        let mut rt = self.real_tracked.borrow_mut();
        if rt.get(&id) == Some(&inst) {
            rt.remove(&id);
        }
    }

    pub fn start_held(&self, sel: u16) {
        let keys: Vec<usize> = self.held.borrow().keys().copied().collect();
        if keys.is_empty() {
            self.noop();
            return;
        }
        let inst = keys[Self::pick(sel, keys.len())];
        let req = self.held.borrow_mut().remove(&inst).unwrap();
        self.start_handler(inst, req);
    }

    pub fn drop_held(&self, sel: u16) {
        let keys: Vec<usize> = self.held.borrow().keys().copied().collect();
        if keys.is_empty() {
            self.noop();
            return;
        }
        let inst = keys[Self::pick(sel, keys.len())];
        self.steer_f6();
        let req = self.held.borrow_mut().remove(&inst).unwrap();
        self.internal_pending.set(self.internal_pending.get() + 1);
        self.hist.push(Ev::Note { text: format!("HeldDropped inst={inst}") });
        drop(req);
        let id = self.insts.borrow()[inst].id;
        let mut m = self.model_in_flight.borrow_mut();
        if m.get(&id) == Some(&inst) {
            m.remove(&id);
        }
        let mut rt = self.real_tracked.borrow_mut();
        if rt.get(&id) == Some(&inst) {
            rt.remove(&id);
        }
    }

    pub fn max_deadline_ns(&self) -> i128 {
        self.insts.borrow().iter().map(|c| c.deadline_ns).max().unwrap_or(0)
    }

    pub async fn apply(self: &Rc<Self>, op: &SOp) {
        self.hist.push(Ev::Env { op: format!("{op:?}") });
        match op {
            SOp::Step { sel } => {
                self.step(*sel);
            }
            SOp::StepCoop { sel, budget } => {
                let w = self.exec.woken();
                if w.is_empty() {
                    self.noop();
                } else {
                    let t = w[Self::pick(*sel, w.len())];
                    tokio::task::yield_now().await;
                    for _ in 0..(128u32.saturating_sub(*budget as u32)) {
                        tokio::task::coop::consume_budget().await;
                    }
                    if self.exec.is_woken(t) {
                        self.poll_task_c(t, true);
                    } else {
                        self.noop();
                    }
                }
            }
            SOp::Drain => self.drain().await,
            SOp::SendRequest { idk, dl, trace, sampled, hold } => {
                self.send_request(*idk, *dl, *trace, *sampled, *hold && !self.cfg.adaptor)
            }
            SOp::SendCancel { sel, unknown } => self.send_cancel(*sel, *unknown),
            SOp::CompleteHandler { sel, err } => self.complete_handler(*sel, *err),
            SOp::DropHandler { sel } => self.drop_handler(*sel),
            SOp::StartHeld { sel } => self.start_held(*sel),
            SOp::DropHeld { sel } => self.drop_held(*sel),
            SOp::Advance { us } => {
                clock::advance(Duration::from_micros(*us)).await
            }
            SOp::AdvanceTo { sel, delta_us } => {
                let m: Vec<usize> = self.model_in_flight.borrow().values().copied().collect();
                if m.is_empty() {
                    self.noop();
                } else {
                    let inst = m[Self::pick(*sel, m.len())];
                    let d = self.insts.borrow()[inst].deadline_ns + (*delta_us as i128) * 1000;
                    let now = clock::now_ns() as i128;
                    if d > now && d - now < 1200 * 86_400 * 1_000_000_000i128 {
                        clock::advance(Duration::from_nanos((d - now) as u64)).await;
                    } else {
                        self.noop();
                    }
                }
            }
            SOp::Budget { n } => {
                let b = match *n {
                    255 => UNLIMITED,
                    n => n as u64,
                };
                self.tr.set_budget(b);
                self.collect_wire();
            }
            SOp::Fault { op, k } => {
                let op = match op % 5 {
                    0 => IoOp::Ready,
                    1 => IoOp::Send,
                    2 => IoOp::Flush,
                    3 => IoOp::Close,
                    _ => IoOp::Next,
                };
                self.tr.set_fault(op, *k as u32);
            }
            SOp::PeerClose => self.tr.close_inbound(),
            SOp::DropChannel => {
                if !self.channel_dropped.get() {
                    self.channel_dropped.set(true);
                    self.hist.push(Ev::ChannelDropped { hop: self.hop });
                    if let Some(m) = self.exec.drop_task(self.consumer_task) {
                        self.panics.borrow_mut().push((self.consumer_task, format!("in drop: {m}")));
                    }
                    self.model_in_flight.borrow_mut().clear();
                }
            }
            SOp::CompleteAll => {
                for i in self.running_insts() {
                    self.complete_inst(i, false);
                }
            }
            SOp::StartAllHeld => {
                let keys: Vec<usize> = self.held.borrow().keys().copied().collect();
                for inst in keys {
                    let req = self.held.borrow_mut().remove(&inst).unwrap();
                    self.start_handler(inst, req);
                }
            }
            SOp::AdvancePastDeadlines => {
                let d = self.max_deadline_ns() + 5_000_000;
                let now = clock::now_ns() as i128;
                if d > now {
                    clock::advance(Duration::from_nanos((d - now) as u64)).await;
                }
                self.drain().await;
                clock::advance(Duration::from_millis(3)).await;
            }
            SOp::Marker(_) => {}
        }
        self.steer_f6_at_poll();
    }

    /// Time passing with (limit ∧ at limit ∧ sink not ready) would enter F6 through an expiry.
    fn steer_f6_before_time(&self) {
        if self.avoid_f6.get() {
            if let Some(l) = self.cfg.limit {
                if self.f6_upper() >= l && self.tr.budget() != UNLIMITED {
                    self.tr.set_budget(UNLIMITED);
                    self.excluded_known.set(self.excluded_known.get() + 1);
                    self.hist.push(Ev::Note { text: "steered around F6: sink budget restored before advancing time".into() });
                }
            }
        }
    }

    pub fn finish(&self) {
        self.held.borrow_mut().clear();
        self.yielded.borrow_mut().clear();
        self.yielded_futs.borrow_mut().clear();
        self.exec.drop_all();
    }
}

pub struct ServerRun {
    pub cfg: ServerCfg,
    pub recs: Vec<Rec>,
    pub insts: Vec<Inst>,
    pub responses: Vec<Response<u64>>,
    pub panics: Vec<(TaskId, String)>,
    pub livelock: bool,
    pub stream_err: Option<String>,
    pub stream_ended: bool,
    pub consumer_state: TaskState,
    pub excluded_known: u32,
    pub max_streak: u32,
    pub started: BTreeMap<usize, (i128, Tc)>,
    pub finished: BTreeMap<usize, bool>,
    pub alive_handler_tasks: Vec<usize>,
    pub overflow_errors: u32,
}

pub fn run_server(cfg: &ServerCfg, ops: &[SOp], avoid_f6: bool) -> ServerRun {
    run_server_opts(cfg, ops, avoid_f6, false)
}

/// `strict_sink`: the scripted sink rejects a start_send that was not preceded by a successful poll_ready.
pub fn run_server_opts(cfg: &ServerCfg, ops: &[SOp], avoid_f6: bool, strict_sink: bool) -> ServerRun {
    clock::enable_and_reset();
    tarpc::verif::set_yield_hook(None);
    let _sub = subscriber_guard(cfg.subscriber);
    let rt = new_runtime();
    let hist = Hist::new();
    // root future under tokio's cooperative budget; ordinary task polls are individually exempt (poll_task)
    let mut out = rt.block_on(async {
        let sim = ServerSim::new(cfg.clone(), hist.clone(), 0, 1);
        sim.avoid_f6.set(avoid_f6);
        sim.tr.set_strict(strict_sink);
        for op in ops {
            if sim.livelock.get() {
                break;
            }
            sim.apply(op).await;
        }
        let alive: Vec<usize> = sim
            .handler_tasks
            .borrow()
            .iter()
            .filter(|(_, t)| sim.exec.state(**t) == TaskState::Alive)
            .map(|(i, _)| *i)
            .collect();
        let run = ServerRun {
            cfg: cfg.clone(),
            recs: vec![],
            insts: sim.insts.borrow().clone(),
            responses: sim.responses.borrow().clone(),
            panics: sim.panics.borrow().clone(),
            livelock: sim.livelock.get(),
            stream_err: sim.probes.stream_err.borrow().clone(),
            stream_ended: sim.probes.stream_ended.get(),
            consumer_state: sim.exec.state(sim.consumer_task),
            excluded_known: sim.excluded_known.get(),
            max_streak: sim.tr.max_streak(),
            started: sim.shared.started.borrow().clone(),
            finished: sim.shared.finished.borrow().clone(),
            alive_handler_tasks: alive,
            overflow_errors: sim.tr.overflow_errors(),
        };
        let mut run = run;
        run.recs = hist.snapshot();
        sim.finish();
        run
    });
    drop(rt);
    clock::disable();
    out
}
