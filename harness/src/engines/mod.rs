pub mod client;
