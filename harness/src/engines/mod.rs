pub mod chain;
pub mod client;
pub mod server;
