pub mod client;
pub mod server;
