//! Entry points for coverage-guided fuzzing (libFuzzer via cargo-fuzz). The same functions are
//! used to replay a saved fuzz input through `verif <ID> --replay <file>` (non-JSON replay files).
//! Each entry decodes the bytes into a structured scenario with `arbitrary::Unstructured` and
//! evaluates the same oracle as the proptest-driven check; a violation panics (libFuzzer records
//! the input), a violation matching an open known finding is ignored.

use crate::engines::client::{COp, ClientCfg, Dl};
use crate::engines::server::{IdKind, SOp, ServerCfg};
use crate::props::c15::{Body, MediumSpec, MsgSpec, Sc15, TcSpec, ALL_KINDS};
use crate::props::c16::Codec;
use crate::props::cgen::CScenario;
use crate::props::sgen::SScenario;
use crate::sim::runner::{load_findings, CaseResult, Findings};
use arbitrary::Unstructured;
use std::sync::OnceLock;

fn findings() -> &'static Findings {
    static F: OnceLock<Findings> = OnceLock::new();
    F.get_or_init(load_findings)
}

fn init() {
    static ONCE: std::sync::Once = std::sync::Once::new();
    ONCE.call_once(|| {
        crate::sim::exec::install_panic_hook();
    });
    crate::sim::exec::set_quiet(true);
}

/// Turn a check result into a crash unless it is clean or an open known finding.
fn judge(id: &str, r: CaseResult, scenario_json: impl FnOnce() -> String) {
    if let Err(v) = r {
        if let Some(sig) = &v.sig {
            if findings().open_text(id, sig).is_some() {
                return;
            }
        }
        if std::env::var("VERIF_FUZZ_REPLAY").is_err() {
            // under libFuzzer the panic message is the report; in replay mode the caller prints it
            crate::sim::exec::set_quiet(false);
        }
        panic!("VIOLATION property={id}: {}\nscenario: {}", v.msg, scenario_json());
    }
}

// ------------------------------------------------------------------ decoders (C16)

/// byte 0: bit0 codec (0 json / 1 bincode), bit1 target (0 ClientMessage / 1 Response), bit2 via framed transport
pub fn fuzz_decode(data: &[u8]) {
    init();
    if data.is_empty() {
        return;
    }
    let codec = if data[0] & 1 == 0 { Codec::Json } else { Codec::Bincode };
    let client_message = data[0] & 2 == 0;
    let via_transport = data[0] & 4 != 0;
    let body = &data[1..];
    crate::sim::clock::enable_and_reset();
    let r = if via_transport {
        crate::props::c16::decode_via_transport(codec, client_message, body).map(|_| ())
    } else {
        crate::props::c16::decode_direct(codec, client_message, body).map(|_| ())
    };
    crate::sim::clock::disable();
    if let Err(m) = r {
        if crate::props::c16::classify_panic(&m).and_then(|s| findings().open_text("C16", s)).is_some() {
            return;
        }
        crate::sim::exec::set_quiet(false);
        panic!("VIOLATION property=C16: decoder panicked on peer bytes: {m}");
    }
}

// ------------------------------------------------------------------ round trip (C15)

fn arb_body(u: &mut Unstructured, depth: u32) -> arbitrary::Result<Body> {
    Ok(match u.int_in_range(0..=if depth > 2 { 5 } else { 7 })? {
        0 => Body::Unit,
        1 => Body::I(u.arbitrary()?),
        2 => Body::U(u.arbitrary()?),
        3 => {
            let n = u.int_in_range(0..=12)?;
            let mut s = String::new();
            for _ in 0..n {
                s.push(char::from_u32(u.int_in_range(0x20u32..=0x2FFF)?).unwrap_or('x'));
            }
            Body::S(s)
        }
        4 => {
            let n = u.int_in_range(0..=24)?;
            Body::Bytes(u.bytes(n)?.to_vec())
        }
        5 => Body::Opt(u.arbitrary()?),
        6 => Body::Pair(Box::new(arb_body(u, depth + 1)?), Box::new(arb_body(u, depth + 1)?)),
        _ => {
            let n = u.int_in_range(0..=3)?;
            let mut v = vec![];
            for _ in 0..n {
                v.push(arb_body(u, depth + 1)?);
            }
            Body::List(v)
        }
    })
}

fn arb_id(u: &mut Unstructured) -> arbitrary::Result<u64> {
    Ok(match u.int_in_range(0..=6)? {
        0 => 0,
        1 => 1,
        2 => (1u64 << 32) - 1,
        3 => 1u64 << 32,
        4 => u64::MAX,
        _ => u.arbitrary()?,
    })
}

fn arb_tc(u: &mut Unstructured) -> arbitrary::Result<TcSpec> {
    Ok(TcSpec { hi: u.arbitrary()?, lo: u.arbitrary()?, span: u.arbitrary()?, sampled: u.arbitrary()? })
}

fn arb_script(u: &mut Unstructured) -> arbitrary::Result<Vec<u8>> {
    let n = u.int_in_range(0..=6)?;
    let mut v = vec![];
    for _ in 0..n {
        v.push(match u.int_in_range(0..=3)? {
            0 => 0,
            1 => u.int_in_range(1..=3)?,
            2 => u.int_in_range(1..=40)?,
            _ => 255,
        });
    }
    if !v.is_empty() && v.iter().all(|x| *x == 0) {
        v.push(3);
    }
    Ok(v)
}

pub fn arb_sc15(u: &mut Unstructured) -> arbitrary::Result<Sc15> {
    let medium = match u.int_in_range(0..=5)? {
        0 => MediumSpec::Unbounded,
        1 => MediumSpec::Bounded(u.int_in_range(0..=4)?),
        2 | 3 => MediumSpec::Json,
        _ => MediumSpec::Bincode,
    };
    let client_to_server: bool = u.arbitrary()?;
    let n = u.int_in_range(0..=24)?;
    let mut msgs = vec![];
    for _ in 0..n {
        msgs.push(match u.int_in_range(0..=3)? {
            0 => MsgSpec::Request { id: arb_id(u)?, body: arb_body(u, 0)?, deadline_off_us: u.int_in_range(-5_000_000i64..=100_000_000_000)?, trace: arb_tc(u)? },
            1 => MsgSpec::Cancel { id: arb_id(u)?, trace: arb_tc(u)? },
            2 => MsgSpec::Response { id: arb_id(u)?, result: Ok(arb_body(u, 0)?) },
            _ => MsgSpec::Response { id: arb_id(u)?, result: Err((u.int_in_range(0..=(ALL_KINDS.len() as u8 - 1))?, "d".repeat(u.int_in_range(0..=8)?))) },
        });
    }
    Ok(Sc15 {
        medium,
        client_to_server,
        msgs,
        write_script: arb_script(u)?,
        read_script: arb_script(u)?,
        close_before_drop: u.arbitrary()?,
        flush_every: u.int_in_range(0..=3)?,
        lazy_reader: u.arbitrary()?,
    })
}

pub fn fuzz_roundtrip(data: &[u8]) {
    init();
    let mut u = Unstructured::new(data);
    let Ok(sc) = arb_sc15(&mut u) else { return };
    let r = crate::props::c15::check(&sc);
    judge("C15", r, || serde_json::to_string(&sc).unwrap_or_default());
}

// ------------------------------------------------------------------ client schedules (C01 C02 C03 C05 C09 C10 C11 C14)
//
// The decoders below mirror props/cgen.rs and props/sgen.rs: which operations may occur, with which
// relative weights, and the configuration ranges all come from the *same profile* the proptest
// strategy of that property uses, so a fuzz input can never leave the input domain the oracle was
// written for.

fn pick_weighted(u: &mut Unstructured, w: &[u32]) -> arbitrary::Result<usize> {
    let total: u32 = w.iter().sum();
    if total == 0 {
        return Err(arbitrary::Error::IncorrectFormat);
    }
    let mut t = u.int_in_range(0..=total - 1)?;
    for (i, x) in w.iter().enumerate() {
        if t < *x {
            return Ok(i);
        }
        t -= *x;
    }
    Ok(w.len() - 1)
}

fn arb_dl_w(u: &mut Unstructured, far: u32, short: u32, huge: u32, past: u32, client: bool) -> arbitrary::Result<Dl> {
    Ok(match pick_weighted(u, &[far, short, huge, past])? {
        0 => Dl::InSecs(u.int_in_range(3600..=199_999)?),
        1 => match u.int_in_range(0..=2)? {
            0 => Dl::InUs(u.int_in_range(0..=59_999)?),
            1 => Dl::InUs(u.int_in_range(0..=59u64)? * 1000),
            _ => Dl::InUs(0),
        },
        2 => match u.int_in_range(0..=if client { 2 } else { 1 })? {
            0 => Dl::InSecs(u.int_in_range(86_400..=40 * 86_400 - 1)?),
            1 => Dl::InSecs(u.int_in_range(300 * 86_400..=65_999_999)?),
            _ => Dl::InSecs(66_000_000),
        },
        _ => Dl::PastUs(u.int_in_range(0..=4_999_999)?),
    })
}

fn arb_advance_us(u: &mut Unstructured) -> arbitrary::Result<u64> {
    Ok(match u.int_in_range(0..=2)? {
        0 => u.int_in_range(0..=4_999u64)?,
        1 => u.int_in_range(0..=99u64)? * 1000,
        _ => u.int_in_range(0..=19_999u64)? * 1000,
    })
}

fn arb_delta(u: &mut Unstructured) -> arbitrary::Result<i32> {
    Ok(match u.int_in_range(0..=4)? {
        0 => -1000,
        1 => 0,
        2 => 1000,
        3 => 2000,
        _ => u.int_in_range(-3000..=2999)?,
    })
}

fn arb_range(u: &mut Unstructured, r: &std::ops::RangeInclusive<usize>) -> arbitrary::Result<usize> {
    u.int_in_range(*r.start()..=*r.end())
}

pub fn arb_cscenario(u: &mut Unstructured, p: &crate::props::cgen::CProfile) -> arbitrary::Result<CScenario> {
    let cfg = ClientCfg {
        max_in_flight: arb_range(u, &p.max_in_flight)?,
        buffer: arb_range(u, &p.buffer)?,
        independent: match p.independent {
            Some(b) => b,
            None => u.arbitrary()?,
        },
        cap: arb_range(u, &p.cap)?,
        subscriber: *u.choose(&p.subscribers)?,
    };
    let w = [
        p.w_step, p.w_drain, p.w_newcall, p.w_reply, p.w_dup, p.w_unknown, p.w_dropcall, p.w_clone, p.w_drophandle, p.w_advance,
        p.w_advance_to, p.w_budget, p.w_fault, p.w_peerclose, p.w_closepending, p.w_stepcoop,
    ];
    let n = u.int_in_range(0..=p.max_ops.saturating_sub(1))?;
    let mut ops = vec![];
    for _ in 0..n {
        ops.push(match pick_weighted(u, &w)? {
            15 => COp::StepCoop { sel: u.arbitrary()?, budget: u.int_in_range(0..=5)? },
            0 => COp::Step { sel: u.arbitrary()? },
            1 => COp::Drain,
            2 => COp::NewCall {
                handle: u.arbitrary()?,
                dl: arb_dl_w(u, p.dl_far, p.dl_short, p.dl_huge, p.dl_past, true)?,
                trace: u.int_in_range(0..=3)?,
                sampled: u.arbitrary()?,
            },
            3 => COp::Reply { sel: u.arbitrary()?, err: u.int_in_range(0..=4)? == 0 },
            4 => COp::ReplyDup { sel: u.arbitrary()? },
            5 => COp::ReplyUnknown { kind: u.arbitrary()? },
            6 => {
                let sel = u.arbitrary()?;
                let y = [u.int_in_range(0..=3u8)?, u.int_in_range(0..=3u8)?, u.int_in_range(0..=3u8)?];
                let use_y: bool = u.int_in_range(0..=4)? < 3;
                COp::DropCall { sel, yields: if p.yields && use_y { y } else { [0, 0, 0] } }
            }
            7 => COp::CloneHandle { from: u.arbitrary()? },
            8 => COp::DropHandle { sel: u.arbitrary()? },
            9 => COp::Advance { us: arb_advance_us(u)? },
            10 => COp::AdvanceTo { sel: u.arbitrary()?, delta_us: arb_delta(u)? },
            11 => COp::Budget {
                n: match u.int_in_range(0..=7)? {
                    0..=2 => 0,
                    3..=5 => u.int_in_range(1..=3)?,
                    _ => 255,
                },
            },
            12 => COp::Fault { op: u.int_in_range(0..=4)?, k: u.int_in_range(0..=11)? },
            13 => COp::PeerClose,
            _ => COp::ClosePending { n: u.int_in_range(0..=3)? },
        });
    }
    Ok(CScenario { cfg, ops })
}

const CLIENT_IDS: [&str; 8] = ["C01", "C02", "C03", "C05", "C09", "C10", "C11", "C14"];

pub fn fuzz_sched_client(data: &[u8]) {
    init();
    if data.len() < 2 {
        return;
    }
    let only = std::env::var("VERIF_FUZZ_ONLY").ok();
    let id = match only.as_deref().and_then(|o| CLIENT_IDS.iter().find(|x| **x == o)) {
        Some(x) => *x,
        None => CLIENT_IDS[(data[0] as usize) % CLIENT_IDS.len()],
    };
    let flag = data[1];
    let mut u = Unstructured::new(&data[2..]);
    use crate::props::*;
    let prof = match id {
        "C01" => c01::profile(),
        "C02" => c02::profile(),
        "C03" => c03::profile(),
        "C05" => c05::profile(),
        "C09" => c09::client_profile(),
        "C10" => c10::client_profile(),
        "C11" => c11::client_profile(),
        _ => c14::client_profile(),
    };
    let Ok(sc) = arb_cscenario(&mut u, &prof) else { return };
    let js = || format!("{} flag={flag}", serde_json::to_string(&sc).unwrap_or_default());
    match id {
        "C01" => judge("C01", c01::check(&sc), js),
        "C02" => judge("C02", c02::check(&sc), js),
        "C03" => judge("C03", c03::check(&sc), js),
        "C05" => judge("C05", c05::check(&sc), js),
        "C09" => judge("C09", c09::check_client(&sc, flag % 3 == 0), js),
        "C10" => judge("C10", c10::check_client_opt(&sc, if flag % 4 == 0 { Some((flag / 4) % 6) } else { None }), js),
        "C11" => judge("C11", c11::check_client(&sc, if flag % 3 == 0 { Some((flag / 3) % 40) } else { None }), js),
        _ => judge("C14", c14::check_client(&sc), js),
    }
}

// ------------------------------------------------------------------ server schedules (C04 C06 C08 C09 C10 C11 C12 C14)

fn arb_request(u: &mut Unstructured, p: &crate::props::sgen::SProfile, plain_ids: bool) -> arbitrary::Result<SOp> {
    let idw = if plain_ids { [p.id_fresh, p.id_wide, 0, 0] } else { [p.id_fresh, p.id_wide, p.id_dup, p.id_reuse] };
    let idk = match pick_weighted(u, &idw)? {
        0 => IdKind::Fresh,
        1 => IdKind::FreshWide(u.arbitrary()?),
        2 => IdKind::DupInFlight(u.arbitrary()?),
        _ => IdKind::ReuseCompleted(u.arbitrary()?),
    };
    Ok(SOp::SendRequest {
        idk,
        dl: arb_dl_w(u, p.dl_far, p.dl_short, p.dl_huge, p.dl_past, false)?,
        trace: u.int_in_range(0..=3)?,
        sampled: u.arbitrary()?,
        hold: (u.int_in_range(0..=999u32)? as f64) < p.hold * 1000.0,
    })
}

pub fn arb_sscenario(u: &mut Unstructured, p: &crate::props::sgen::SProfile) -> arbitrary::Result<SScenario> {
    let cfg = ServerCfg {
        limit: *u.choose(&p.limits)?,
        resp_buffer: arb_range(u, &p.resp_buffer)?,
        independent: match p.independent {
            Some(b) => b,
            None => u.arbitrary()?,
        },
        cap: arb_range(u, &p.cap)?,
        adaptor: match p.adaptor {
            Some(b) => b,
            None => u.int_in_range(0..=9)? < 3,
        },
        subscriber: *u.choose(&p.subscribers)?,
    };
    let w = [
        p.w_step, p.w_drain, p.w_request, p.w_cancel, p.w_complete, p.w_drophandler, p.w_startheld, p.w_dropheld, p.w_advance,
        p.w_advance_to, p.w_budget, p.w_fault, p.w_peerclose, p.w_dropchannel, p.w_cancel_then_request, p.w_stepcoop,
    ];
    let n = u.int_in_range(0..=p.max_ops.saturating_sub(1))?;
    let mut ops = vec![];
    for _ in 0..n {
        match pick_weighted(u, &w)? {
            0 => ops.push(SOp::Step { sel: u.arbitrary()? }),
            1 => ops.push(SOp::Drain),
            2 => ops.push(arb_request(u, p, false)?),
            3 => {
                let sel = u.arbitrary()?;
                let unknown = if (u.int_in_range(0..=999u32)? as f64) < p.unknown_cancel * 1000.0 { Some(u.arbitrary()?) } else { None };
                ops.push(SOp::SendCancel { sel, unknown })
            }
            4 => ops.push(SOp::CompleteHandler { sel: u.arbitrary()?, err: u.int_in_range(0..=4)? == 0 }),
            5 => ops.push(SOp::DropHandler { sel: u.arbitrary()? }),
            6 => ops.push(SOp::StartHeld { sel: u.arbitrary()? }),
            7 => ops.push(SOp::DropHeld { sel: u.arbitrary()? }),
            8 => ops.push(SOp::Advance { us: arb_advance_us(u)? }),
            9 => ops.push(SOp::AdvanceTo { sel: u.arbitrary()?, delta_us: arb_delta(u)? }),
            10 => ops.push(SOp::Budget {
                n: match u.int_in_range(0..=2)? {
                    0 => 0,
                    1 => u.int_in_range(1..=3)?,
                    _ => 255,
                },
            }),
            11 => ops.push(SOp::Fault { op: u.int_in_range(0..=4)?, k: u.int_in_range(0..=11)? }),
            12 => ops.push(SOp::PeerClose),
            13 => ops.push(SOp::DropChannel),
            15 => ops.push(SOp::StepCoop { sel: u.arbitrary()?, budget: u.int_in_range(0..=5)? }),
            _ => {
                ops.push(SOp::SendCancel { sel: u.arbitrary()?, unknown: None });
                ops.push(arb_request(u, p, true)?);
            }
        }
    }
    Ok(SScenario { cfg, ops })
}

/// Raw-channel scenario (engine R, props/rawchan.rs) from fuzzer bytes: same op alphabet and weights as the proptest strategy.
pub fn arb_raw(u: &mut Unstructured) -> arbitrary::Result<crate::props::rawchan::RawScenario> {
    use crate::props::rawchan::{ROp, RawScenario};
    let cap = u.int_in_range(1..=3usize)?;
    let independent: bool = u.arbitrary()?;
    let subscriber = if u.int_in_range(0..=4)? == 0 { 1u8 } else { 0u8 };
    let n = u.int_in_range(1..=80usize)?;
    let mut ops = vec![];
    fn id(u: &mut Unstructured) -> arbitrary::Result<u8> {
        Ok(if u.int_in_range(0..=8)? == 0 { u.int_in_range(4..=7)? } else { u.int_in_range(0..=3)? })
    }
    fn id_hit(u: &mut Unstructured) -> arbitrary::Result<u8> {
        Ok(match u.int_in_range(0..=8)? {
            0..=4 => u.int_in_range(8..=15)?,
            5..=7 => u.int_in_range(0..=3)?,
            _ => u.int_in_range(4..=7)?,
        })
    }
    for _ in 0..n {
        let op = match pick_weighted(u, &[20, 8, 22, 10, 14, 2, 5, 8, 4, 3])? {
            0 => ROp::Poll { force: u.arbitrary()? },
            1 => ROp::Drain,
            2 => ROp::Req {
                id_sel: id(u)?,
                dl: match pick_weighted(u, &[6, 1, 3, 1])? {
                    0 => Dl::InUs(u.int_in_range(1..=199_999)?),
                    1 => Dl::PastUs(u.int_in_range(0..=4_999)?),
                    2 => Dl::InSecs(u.int_in_range(1..=99_999)?),
                    _ => Dl::InUs(0),
                },
            },
            3 => ROp::Cancel { id_sel: id_hit(u)? },
            4 => ROp::Respond { id_sel: id_hit(u)?, flush: u.arbitrary()?, fail: u.int_in_range(0..=7)? == 0 },
            5 => ROp::Flush,
            6 => ROp::Advance { us: arb_advance_us(u)?.max(1) },
            7 => ROp::AdvanceTo {
                sel: u.arbitrary()?,
                delta_us: match u.int_in_range(0..=5)? {
                    0 => -1000,
                    1 => -1,
                    2 => 2000,
                    3 => 2001,
                    4 => u.int_in_range(2000..=49_999)?,
                    _ => u.int_in_range(-50_000..=-1)?,
                },
            },
            8 => ROp::Budget { n: *u.choose(&[0u8, 1, 2, 255])? },
            _ => ROp::PeerClose,
        };
        ops.push(op);
    }
    ops.push(ROp::PeerClose);
    ops.push(ROp::Drain);
    Ok(RawScenario { cap, independent, subscriber, ops })
}

const RAW_IDS: [&str; 5] = ["C04", "C06", "C08", "C10", "C11"];

const SERVER_IDS: [&str; 8] = ["C04", "C06", "C08", "C09", "C10", "C11", "C12", "C14"];

pub fn fuzz_sched_server(data: &[u8]) {
    init();
    if data.len() < 2 {
        return;
    }
    let only = std::env::var("VERIF_FUZZ_ONLY").ok();
    let id = match only.as_deref().and_then(|o| SERVER_IDS.iter().find(|x| **x == o)) {
        Some(x) => *x,
        None => SERVER_IDS[(data[0] as usize) % SERVER_IDS.len()],
    };
    let flag = data[1];
    let mut u = Unstructured::new(&data[2..]);
    use crate::props::sprops::*;
    // one input in four (flag >= 192) is a raw-channel scenario for the properties that have a raw part
    if flag >= 192 {
        if let Some(rid) = RAW_IDS.iter().find(|x| **x == id) {
            let Ok(sc) = arb_raw(&mut u) else { return };
            let js = || format!("{} flag={flag}", serde_json::to_string(&sc).unwrap_or_default());
            judge(rid, crate::props::rawchan::check_for(rid, &sc), js);
            return;
        }
    }
    let prof = match id {
        "C04" => c04_profile(),
        "C06" => c06_profile(),
        "C08" => c08_profile(),
        "C09" => c09s_profile(),
        "C10" => c10s_profile(),
        "C11" => c11s_profile(),
        "C12" => c12_profile(),
        _ => c14s_profile(),
    };
    let Ok(sc) = arb_sscenario(&mut u, &prof) else { return };
    let js = || format!("{} flag={flag}", serde_json::to_string(&sc).unwrap_or_default());
    match id {
        "C04" => judge("C04", c04_check(&sc), js),
        "C06" => judge("C06", c06_check(&sc), js),
        "C08" => judge("C08", c08_check(&sc), js),
        "C09" => judge("C09", c09s_check(&sc), js),
        "C10" => judge("C10", c10s_check(&sc), js),
        "C11" => judge("C11", c11s_check(&sc, flag % 5 == 0), js),
        "C12" => judge("C12", c12_check(&sc), js),
        _ => judge("C14", c14s_check(&sc), js),
    }
}

/// Replay a saved libFuzzer input for target `name`. Returns Err(message) on a violation.
pub fn replay(name: &str, data: &[u8]) -> Result<(), String> {
    let f: fn(&[u8]) = match name {
        "decode" => fuzz_decode,
        "roundtrip" => fuzz_roundtrip,
        "sched_client" => fuzz_sched_client,
        "sched_server" => fuzz_sched_server,
        _ => return Err(format!("unknown fuzz target {name}")),
    };
    let r = crate::sim::exec::catch(|| f(data));
    crate::sim::exec::set_quiet(true);
    r
}

/// Write a small seed corpus (valid encodings for the byte targets, deterministic pseudo-random
/// byte strings of several lengths for the structured targets).
pub fn write_seeds(dir: &std::path::Path) -> std::io::Result<()> {
    use crate::props::c15::{Body, MsgSpec, TcSpec};
    crate::sim::clock::enable_and_reset();
    let tc = TcSpec { hi: 1, lo: 2, span: 3, sampled: true };
    let base = vec![
        MsgSpec::Request { id: 1, body: Body::S("hello".into()), deadline_off_us: 10_000_000, trace: tc },
        MsgSpec::Cancel { id: 1, trace: tc },
        MsgSpec::Request { id: u64::MAX, body: Body::List(vec![Body::U(7), Body::Opt(None)]), deadline_off_us: 0, trace: tc },
    ];
    let resp = vec![
        MsgSpec::Response { id: 1, result: Ok(Body::I(-5)) },
        MsgSpec::Response { id: 2, result: Err((10, "server throttled the request.".into())) },
    ];
    let d = dir.join("decode");
    std::fs::create_dir_all(&d)?;
    let mut k = 0;
    for (ci, codec) in [Codec::Json, Codec::Bincode].into_iter().enumerate() {
        for (client_message, set) in [(true, &base), (false, &resp)] {
            let frames = crate::props::c16::real_frames(codec, client_message, set);
            for f in &frames {
                // direct
                let mut v = vec![(ci as u8) | if client_message { 0 } else { 2 }];
                v.extend_from_slice(f);
                std::fs::write(d.join(format!("seed{k:02}")), &v)?;
                k += 1;
            }
            // via transport: all frames, length-prefixed
            let mut v = vec![(ci as u8) | if client_message { 0 } else { 2 } | 4];
            for f in &frames {
                v.extend(crate::props::c16::frame(f));
            }
            std::fs::write(d.join(format!("seed{k:02}")), &v)?;
            k += 1;
        }
    }
    crate::sim::clock::disable();
    for t in ["roundtrip", "sched_client", "sched_server"] {
        let d = dir.join(t);
        std::fs::create_dir_all(&d)?;
        let mut x: u64 = 0x9E3779B97F4A7C15 ^ t.len() as u64;
        for (i, len) in [16usize, 64, 200, 600, 1500, 3000].iter().enumerate() {
            for j in 0..3 {
                let mut v = Vec::with_capacity(*len);
                for _ in 0..*len {
                    x ^= x << 13;
                    x ^= x >> 7;
                    x ^= x << 17;
                    v.push((x >> 24) as u8);
                }
                std::fs::write(d.join(format!("seed{i}{j}")), &v)?;
            }
        }
    }
    Ok(())
}
