//! Entry points for coverage-guided fuzzing (libFuzzer via cargo-fuzz). The same functions are
//! used to replay a saved fuzz input through `verif <ID> --replay <file>` (non-JSON replay files).
//! Each entry decodes the bytes into a structured scenario with `arbitrary::Unstructured` and
//! evaluates the same oracle as the proptest-driven check; a violation panics (libFuzzer records
//! the input), a violation matching an open known finding is ignored.

use crate::engines::client::{COp, ClientCfg, Dl};
use crate::engines::server::{IdKind, SOp, ServerCfg};
use crate::props::c15::{Body, MediumSpec, MsgSpec, Sc15, TcSpec, ALL_KINDS};
use crate::props::c16::Codec;
use crate::props::cgen::CScenario;
use crate::props::sgen::SScenario;
use crate::sim::runner::{load_findings, CaseResult, Findings};
use arbitrary::Unstructured;
use std::sync::OnceLock;

fn findings() -> &'static Findings {
    static F: OnceLock<Findings> = OnceLock::new();
    F.get_or_init(load_findings)
}

fn init() {
    static ONCE: std::sync::Once = std::sync::Once::new();
    ONCE.call_once(|| {
        crate::sim::exec::install_panic_hook();
    });
    crate::sim::exec::set_quiet(true);
}

/// Turn a check result into a crash unless it is clean or an open known finding.
fn judge(id: &str, r: CaseResult, scenario_json: impl FnOnce() -> String) {
    if let Err(v) = r {
        if let Some(sig) = &v.sig {
            if findings().open_text(id, sig).is_some() {
                return;
            }
        }
        crate::sim::exec::set_quiet(false);
        panic!("VIOLATION property={id}: {}\nscenario: {}", v.msg, scenario_json());
    }
}

// ------------------------------------------------------------------ decoders (C16)

/// byte 0: bit0 codec (0 json / 1 bincode), bit1 target (0 ClientMessage / 1 Response), bit2 via framed transport
pub fn fuzz_decode(data: &[u8]) {
    init();
    if data.is_empty() {
        return;
    }
    let codec = if data[0] & 1 == 0 { Codec::Json } else { Codec::Bincode };
    let client_message = data[0] & 2 == 0;
    let via_transport = data[0] & 4 != 0;
    let body = &data[1..];
    crate::sim::clock::enable_and_reset();
    let r = if via_transport {
        crate::props::c16::decode_via_transport(codec, client_message, body).map(|_| ())
    } else {
        crate::props::c16::decode_direct(codec, client_message, body).map(|_| ())
    };
    crate::sim::clock::disable();
    if let Err(m) = r {
        if crate::props::c16::classify_panic(&m).and_then(|s| findings().open_text("C16", s)).is_some() {
            return;
        }
        crate::sim::exec::set_quiet(false);
        panic!("VIOLATION property=C16: decoder panicked on peer bytes: {m}");
    }
}

// ------------------------------------------------------------------ round trip (C15)

fn arb_body(u: &mut Unstructured, depth: u32) -> arbitrary::Result<Body> {
    Ok(match u.int_in_range(0..=if depth > 2 { 5 } else { 7 })? {
        0 => Body::Unit,
        1 => Body::I(u.arbitrary()?),
        2 => Body::U(u.arbitrary()?),
        3 => {
            let n = u.int_in_range(0..=12)?;
            let mut s = String::new();
            for _ in 0..n {
                s.push(char::from_u32(u.int_in_range(0x20u32..=0x2FFF)?).unwrap_or('x'));
            }
            Body::S(s)
        }
        4 => {
            let n = u.int_in_range(0..=24)?;
            Body::Bytes(u.bytes(n)?.to_vec())
        }
        5 => Body::Opt(u.arbitrary()?),
        6 => Body::Pair(Box::new(arb_body(u, depth + 1)?), Box::new(arb_body(u, depth + 1)?)),
        _ => {
            let n = u.int_in_range(0..=3)?;
            let mut v = vec![];
            for _ in 0..n {
                v.push(arb_body(u, depth + 1)?);
            }
            Body::List(v)
        }
    })
}

fn arb_id(u: &mut Unstructured) -> arbitrary::Result<u64> {
    Ok(match u.int_in_range(0..=6)? {
        0 => 0,
        1 => 1,
        2 => (1u64 << 32) - 1,
        3 => 1u64 << 32,
        4 => u64::MAX,
        _ => u.arbitrary()?,
    })
}

fn arb_tc(u: &mut Unstructured) -> arbitrary::Result<TcSpec> {
    Ok(TcSpec { hi: u.arbitrary()?, lo: u.arbitrary()?, span: u.arbitrary()?, sampled: u.arbitrary()? })
}

fn arb_script(u: &mut Unstructured) -> arbitrary::Result<Vec<u8>> {
    let n = u.int_in_range(0..=6)?;
    let mut v = vec![];
    for _ in 0..n {
        v.push(match u.int_in_range(0..=3)? {
            0 => 0,
            1 => u.int_in_range(1..=3)?,
            2 => u.int_in_range(1..=40)?,
            _ => 255,
        });
    }
    if !v.is_empty() && v.iter().all(|x| *x == 0) {
        v.push(3);
    }
    Ok(v)
}

pub fn arb_sc15(u: &mut Unstructured) -> arbitrary::Result<Sc15> {
    let medium = match u.int_in_range(0..=5)? {
        0 => MediumSpec::Unbounded,
        1 => MediumSpec::Bounded(u.int_in_range(0..=4)?),
        2 | 3 => MediumSpec::Json,
        _ => MediumSpec::Bincode,
    };
    let client_to_server: bool = u.arbitrary()?;
    let n = u.int_in_range(0..=24)?;
    let mut msgs = vec![];
    for _ in 0..n {
        msgs.push(match u.int_in_range(0..=3)? {
            0 => MsgSpec::Request { id: arb_id(u)?, body: arb_body(u, 0)?, deadline_off_us: u.int_in_range(-5_000_000i64..=100_000_000_000)?, trace: arb_tc(u)? },
            1 => MsgSpec::Cancel { id: arb_id(u)?, trace: arb_tc(u)? },
            2 => MsgSpec::Response { id: arb_id(u)?, result: Ok(arb_body(u, 0)?) },
            _ => MsgSpec::Response { id: arb_id(u)?, result: Err((u.int_in_range(0..=(ALL_KINDS.len() as u8 - 1))?, "d".repeat(u.int_in_range(0..=8)?))) },
        });
    }
    Ok(Sc15 {
        medium,
        client_to_server,
        msgs,
        write_script: arb_script(u)?,
        read_script: arb_script(u)?,
        close_before_drop: u.arbitrary()?,
        flush_every: u.int_in_range(0..=3)?,
        lazy_reader: u.arbitrary()?,
    })
}

pub fn fuzz_roundtrip(data: &[u8]) {
    init();
    let mut u = Unstructured::new(data);
    let Ok(sc) = arb_sc15(&mut u) else { return };
    let r = crate::props::c15::check(&sc);
    judge("C15", r, || serde_json::to_string(&sc).unwrap_or_default());
}

// ------------------------------------------------------------------ client schedules (C02, C03, C05, C14)

fn arb_dl(u: &mut Unstructured) -> arbitrary::Result<Dl> {
    Ok(match u.int_in_range(0..=9)? {
        0..=4 => Dl::InSecs(u.int_in_range(3600..=200_000)?),
        5..=7 => Dl::InUs(u.int_in_range(0..=60_000)?),
        8 => Dl::InUs(0),
        _ => Dl::PastUs(u.int_in_range(0..=5_000_000)?),
    })
}

pub fn arb_cscenario(u: &mut Unstructured, faults: bool) -> arbitrary::Result<CScenario> {
    let cfg = ClientCfg {
        max_in_flight: u.int_in_range(1..=4)?,
        buffer: u.int_in_range(1..=3)?,
        independent: u.arbitrary()?,
        cap: u.int_in_range(1..=3)?,
        subscriber: 0,
    };
    let n = u.int_in_range(0..=80)?;
    let mut ops = vec![];
    for _ in 0..n {
        ops.push(match u.int_in_range(0..=if faults { 15 } else { 13 })? {
            0..=3 => COp::Step { sel: u.arbitrary()? },
            4 => COp::Drain,
            5..=6 => COp::NewCall { handle: u.arbitrary()?, dl: arb_dl(u)?, trace: u.int_in_range(0..=3)?, sampled: u.arbitrary()? },
            7 => COp::Reply { sel: u.arbitrary()?, err: u.arbitrary()? },
            8 => match u.int_in_range(0..=2)? {
                0 => COp::ReplyDup { sel: u.arbitrary()? },
                1 => COp::ReplyUnknown { kind: u.arbitrary()? },
                _ => COp::CloneHandle { from: u.arbitrary()? },
            },
            9 => COp::DropCall { sel: u.arbitrary()?, yields: [u.int_in_range(0..=3)?, u.int_in_range(0..=3)?, u.int_in_range(0..=3)?] },
            10 => COp::Advance { us: u.int_in_range(0..=20_000_000)? },
            11 => COp::AdvanceTo { sel: u.arbitrary()?, delta_us: u.int_in_range(-3000..=3000)? },
            12 => COp::Budget { n: match u.int_in_range(0..=2)? { 0 => 0, 1 => u.int_in_range(1..=3)?, _ => 255 } },
            13 => COp::DropHandle { sel: u.arbitrary()? },
            14 => COp::Fault { op: u.int_in_range(0..=4)?, k: u.int_in_range(0..=11)? },
            _ => COp::PeerClose,
        });
    }
    Ok(CScenario { cfg, ops })
}

pub fn fuzz_sched_client(data: &[u8]) {
    init();
    if data.is_empty() {
        return;
    }
    let which = match std::env::var("VERIF_FUZZ_ONLY").as_deref() {
        Ok("C02") => 0,
        Ok("C03") => 1,
        Ok("C05") => 2,
        Ok("C14") => 3,
        _ => data[0] % 4,
    };
    let mut u = Unstructured::new(&data[1..]);
    let Ok(sc) = arb_cscenario(&mut u, which == 0 || which == 3) else { return };
    let js = || serde_json::to_string(&sc).unwrap_or_default();
    match which {
        0 => judge("C02", crate::props::c02::check(&sc), js),
        1 => judge("C03", crate::props::c03::check(&sc), js),
        2 => judge("C05", crate::props::c05::check(&sc), js),
        _ => judge("C14", crate::props::c14::check_client(&sc), js),
    }
}

// ------------------------------------------------------------------ server schedules (C04, C06, C08, C12)

pub fn arb_sscenario(u: &mut Unstructured, limits: &[Option<usize>]) -> arbitrary::Result<SScenario> {
    let cfg = ServerCfg {
        limit: *u.choose(limits)?,
        resp_buffer: u.int_in_range(1..=4)?,
        independent: u.arbitrary()?,
        cap: u.int_in_range(1..=3)?,
        adaptor: u.int_in_range(0..=3)? == 0,
        subscriber: 0,
    };
    let n = u.int_in_range(0..=70)?;
    let mut ops = vec![];
    for _ in 0..n {
        ops.push(match u.int_in_range(0..=14)? {
            0..=3 => SOp::Step { sel: u.arbitrary()? },
            4 => SOp::Drain,
            5..=7 => SOp::SendRequest {
                idk: match u.int_in_range(0..=9)? {
                    0..=5 => IdKind::Fresh,
                    6 | 7 => IdKind::FreshWide(u.arbitrary()?),
                    8 => IdKind::DupInFlight(u.arbitrary()?),
                    _ => IdKind::ReuseCompleted(u.arbitrary()?),
                },
                dl: arb_dl(u)?,
                trace: u.int_in_range(0..=3)?,
                sampled: u.arbitrary()?,
                hold: u.int_in_range(0..=9)? == 0,
            },
            8 => SOp::SendCancel { sel: u.arbitrary()?, unknown: if u.int_in_range(0..=4)? == 0 { Some(u.arbitrary()?) } else { None } },
            9 | 10 => SOp::CompleteHandler { sel: u.arbitrary()?, err: u.int_in_range(0..=4)? == 0 },
            11 => match u.int_in_range(0..=3)? {
                0 => SOp::DropHandler { sel: u.arbitrary()? },
                1 => SOp::StartHeld { sel: u.arbitrary()? },
                2 => SOp::DropHeld { sel: u.arbitrary()? },
                _ => SOp::Advance { us: u.int_in_range(0..=20_000_000)? },
            },
            12 => SOp::AdvanceTo { sel: u.arbitrary()?, delta_us: u.int_in_range(-3000..=3000)? },
            13 => SOp::Budget { n: match u.int_in_range(0..=2)? { 0 => 0, 1 => u.int_in_range(1..=3)?, _ => 255 } },
            _ => SOp::SendCancel { sel: u.arbitrary()?, unknown: None },
        });
    }
    Ok(SScenario { cfg, ops })
}

pub fn fuzz_sched_server(data: &[u8]) {
    init();
    if data.is_empty() {
        return;
    }
    let which = match std::env::var("VERIF_FUZZ_ONLY").as_deref() {
        Ok("C08") => 0,
        Ok("C04") => 1,
        Ok("C06") => 2,
        Ok("C12") => 3,
        _ => data[0] % 4,
    };
    let mut u = Unstructured::new(&data[1..]);
    let limits: &[Option<usize>] = match which {
        0 => &[None],
        3 => &[Some(0), Some(1), Some(2), Some(3)],
        _ => &[None, Some(1), Some(2)],
    };
    let Ok(sc) = arb_sscenario(&mut u, limits) else { return };
    let js = || serde_json::to_string(&sc).unwrap_or_default();
    match which {
        0 => judge("C08", crate::props::sprops::c08_check(&sc), js),
        1 => judge("C04", crate::props::sprops::c04_check(&sc), js),
        2 => judge("C06", crate::props::sprops::c06_check(&sc), js),
        _ => judge("C12", crate::props::sprops::c12_check(&sc), js),
    }
}

/// Replay a saved libFuzzer input for target `name`. Returns Err(message) on a violation.
pub fn replay(name: &str, data: &[u8]) -> Result<(), String> {
    let f: fn(&[u8]) = match name {
        "decode" => fuzz_decode,
        "roundtrip" => fuzz_roundtrip,
        "sched_client" => fuzz_sched_client,
        "sched_server" => fuzz_sched_server,
        _ => return Err(format!("unknown fuzz target {name}")),
    };
    let r = crate::sim::exec::catch(|| f(data));
    crate::sim::exec::set_quiet(true);
    r
}

/// Write a small seed corpus (valid encodings for the byte targets, deterministic pseudo-random
/// byte strings of several lengths for the structured targets).
pub fn write_seeds(dir: &std::path::Path) -> std::io::Result<()> {
    use crate::props::c15::{Body, MsgSpec, TcSpec};
    crate::sim::clock::enable_and_reset();
    let tc = TcSpec { hi: 1, lo: 2, span: 3, sampled: true };
    let base = vec![
        MsgSpec::Request { id: 1, body: Body::S("hello".into()), deadline_off_us: 10_000_000, trace: tc },
        MsgSpec::Cancel { id: 1, trace: tc },
        MsgSpec::Request { id: u64::MAX, body: Body::List(vec![Body::U(7), Body::Opt(None)]), deadline_off_us: 0, trace: tc },
    ];
    let resp = vec![
        MsgSpec::Response { id: 1, result: Ok(Body::I(-5)) },
        MsgSpec::Response { id: 2, result: Err((10, "server throttled the request.".into())) },
    ];
    let d = dir.join("decode");
    std::fs::create_dir_all(&d)?;
    let mut k = 0;
    for (ci, codec) in [Codec::Json, Codec::Bincode].into_iter().enumerate() {
        for (client_message, set) in [(true, &base), (false, &resp)] {
            let frames = crate::props::c16::real_frames(codec, client_message, set);
            for f in &frames {
                // direct
                let mut v = vec![(ci as u8) | if client_message { 0 } else { 2 }];
                v.extend_from_slice(f);
                std::fs::write(d.join(format!("seed{k:02}")), &v)?;
                k += 1;
            }
            // via transport: all frames, length-prefixed
            let mut v = vec![(ci as u8) | if client_message { 0 } else { 2 } | 4];
            for f in &frames {
                v.extend(crate::props::c16::frame(f));
            }
            std::fs::write(d.join(format!("seed{k:02}")), &v)?;
            k += 1;
        }
    }
    crate::sim::clock::disable();
    for t in ["roundtrip", "sched_client", "sched_server"] {
        let d = dir.join(t);
        std::fs::create_dir_all(&d)?;
        let mut x: u64 = 0x9E3779B97F4A7C15 ^ t.len() as u64;
        for (i, len) in [16usize, 64, 200, 600, 1500, 3000].iter().enumerate() {
            for j in 0..3 {
                let mut v = Vec::with_capacity(*len);
                for _ in 0..*len {
                    x ^= x << 13;
                    x ^= x >> 7;
                    x ^= x << 17;
                    v.push((x >> 24) as u8);
                }
                std::fs::write(d.join(format!("seed{i}{j}")), &v)?;
            }
        }
    }
    Ok(())
}
