//! Scripted transport: Stream + Sink whose readiness, flushing, faults and inbound traffic are
//! controlled by the environment, and which logs every trait call.

use super::hist::{Ev, Hist, IoOp, IoRes, Snap};
use futures::{Sink, Stream};
use std::cell::RefCell;
use std::collections::VecDeque;
use std::pin::Pin;
use std::rc::Rc;
use std::task::{Context, Poll, Waker};

#[derive(Debug, Clone)]
pub struct SimIoError(pub &'static str);
impl std::fmt::Display for SimIoError {
    fn fmt(&self, f: &mut std::fmt::Formatter<'_>) -> std::fmt::Result {
        write!(f, "sim io error in {}", self.0)
    }
}
impl std::error::Error for SimIoError {}

pub const UNLIMITED: u64 = u64::MAX;
pub const SPIN_PANIC: u32 = 1000;

pub struct TState<S, I> {
    pub id: u8,
    // inbound
    pub inbound: VecDeque<Result<I, ()>>,
    pub in_closed: bool,
    pub read_waker: Option<Waker>,
    pub read_ended: bool,
    // outbound
    pub independent: bool,
    pub cap: usize,
    pub buffer: VecDeque<S>,
    pub wire: VecDeque<S>,
    pub budget: u64,
    pub write_waker: Option<Waker>,
    /// per op: Some(k) = the (k+1)-th call from now fails (k successful calls remain)
    pub faults: [Option<u32>; 5],
    pub fault_fired: [bool; 5],
    pub close_pending: u32,
    pub close_called: bool,
    pub closed: bool,
    // spin detection
    pub streak: u32,
    pub streak_poll: u64,
    pub max_streak: u32,
    pub total_sent: u64,
    /// strict mode: like a bounded queue, start_send on a full buffer fails (the contract requires
    /// a successful poll_ready before every start_send, so a correct endpoint never sees this)
    pub strict: bool,
    pub overflow_errors: u32,
}

impl<S, I> TState<S, I> {
    fn move_to_wire(&mut self) {
        while !self.buffer.is_empty() && self.budget > 0 {
            let it = self.buffer.pop_front().unwrap();
            self.wire.push_back(it);
            if self.budget != UNLIMITED {
                self.budget -= 1;
            }
        }
    }
    /// poll_ready would return Pending right now.
    pub fn write_blocked(&self) -> bool {
        self.buffer.len() >= self.cap && self.budget == 0
    }
    fn take_fault(&mut self, op: IoOp) -> bool {
        let i = op as usize;
        match self.faults[i] {
            Some(0) => {
                self.faults[i] = None;
                self.fault_fired[i] = true;
                true
            }
            Some(k) => {
                self.faults[i] = Some(k - 1);
                false
            }
            None => false,
        }
    }
}

pub struct SimTransport<S, I> {
    st: Rc<RefCell<TState<S, I>>>,
    hist: Hist,
}

pub struct SimHandle<S, I> {
    pub st: Rc<RefCell<TState<S, I>>>,
}

impl<S, I> Clone for SimHandle<S, I> {
    fn clone(&self) -> Self {
        SimHandle { st: self.st.clone() }
    }
}

pub fn sim_transport<S, I>(
    id: u8,
    hist: &Hist,
    independent: bool,
    cap: usize,
) -> (SimTransport<S, I>, SimHandle<S, I>) {
    let st = Rc::new(RefCell::new(TState {
        id,
        inbound: VecDeque::new(),
        in_closed: false,
        read_waker: None,
        read_ended: false,
        independent,
        cap: cap.max(1),
        buffer: VecDeque::new(),
        wire: VecDeque::new(),
        budget: UNLIMITED,
        write_waker: None,
        faults: [None; 5],
        fault_fired: [false; 5],
        close_pending: 0,
        close_called: false,
        closed: false,
        streak: 0,
        streak_poll: 0,
        max_streak: 0,
        total_sent: 0,
        strict: false,
        overflow_errors: 0,
    }));
    (
        SimTransport {
            st: st.clone(),
            hist: hist.clone(),
        },
        SimHandle { st },
    )
}

impl<S, I> SimHandle<S, I> {
    pub fn deliver(&self, item: I) {
        let w = {
            let mut s = self.st.borrow_mut();
            s.inbound.push_back(Ok(item));
            s.read_waker.take()
        };
        if let Some(w) = w {
            w.wake();
        }
    }
    pub fn deliver_err(&self) {
        let w = {
            let mut s = self.st.borrow_mut();
            s.inbound.push_back(Err(()));
            s.read_waker.take()
        };
        if let Some(w) = w {
            w.wake();
        }
    }
    pub fn close_inbound(&self) {
        let w = {
            let mut s = self.st.borrow_mut();
            s.in_closed = true;
            s.read_waker.take()
        };
        if let Some(w) = w {
            w.wake();
        }
    }
    /// Set the write budget (UNLIMITED, 0 = blocked, n = n more items). Wakes the writer when
    /// the blocking condition may have changed.
    pub fn set_budget(&self, n: u64) {
        let w = {
            let mut s = self.st.borrow_mut();
            let was_blocked = s.budget == 0;
            s.budget = n;
            if s.independent {
                s.move_to_wire();
            }
            if n > 0 && was_blocked {
                s.write_waker.take()
            } else {
                None
            }
        };
        if let Some(w) = w {
            w.wake();
        }
    }
    pub fn budget(&self) -> u64 {
        self.st.borrow().budget
    }
    pub fn set_fault(&self, op: IoOp, k: u32) {
        self.st.borrow_mut().faults[op as usize] = Some(k);
    }
    pub fn clear_faults(&self) {
        self.st.borrow_mut().faults = [None; 5];
    }
    pub fn set_close_pending(&self, n: u32) {
        self.st.borrow_mut().close_pending = n;
    }
    pub fn take_wire(&self) -> Vec<S> {
        self.st.borrow_mut().wire.drain(..).collect()
    }
    pub fn id(&self) -> u8 {
        self.st.borrow().id
    }
    pub fn wire_len(&self) -> usize {
        self.st.borrow().wire.len()
    }
    pub fn write_blocked(&self) -> bool {
        self.st.borrow().write_blocked()
    }
    pub fn buffered(&self) -> usize {
        self.st.borrow().buffer.len()
    }
    pub fn inbound_len(&self) -> usize {
        self.st.borrow().inbound.len()
    }
    pub fn closed(&self) -> bool {
        self.st.borrow().closed
    }
    pub fn close_called(&self) -> bool {
        self.st.borrow().close_called
    }
    pub fn max_streak(&self) -> u32 {
        self.st.borrow().max_streak
    }
    pub fn fault_fired(&self, op: IoOp) -> bool {
        self.st.borrow().fault_fired[op as usize]
    }
    pub fn in_closed(&self) -> bool {
        self.st.borrow().in_closed
    }
    pub fn set_strict(&self, strict: bool) {
        self.st.borrow_mut().strict = strict;
    }
    pub fn overflow_errors(&self) -> u32 {
        self.st.borrow().overflow_errors
    }
}

impl<S, I> SimTransport<S, I> {
    fn log(&self, op: IoOp, sent: Option<super::hist::Msg>, res: IoRes) {
        let id = self.st.borrow().id;
        self.hist.push(Ev::Io {
            tr: id,
            task: self.hist.0.cur_task.get(),
            op,
            sent,
            res,
        });
    }
    fn note_success(&self) {
        self.st.borrow_mut().streak = 0;
    }
}

impl<S, I: Snap> Stream for SimTransport<S, I> {
    type Item = Result<I, SimIoError>;
    fn poll_next(self: Pin<&mut Self>, cx: &mut Context<'_>) -> Poll<Option<Self::Item>> {
        let mut s = self.st.borrow_mut();
        if s.take_fault(IoOp::Next) {
            drop(s);
            self.log(IoOp::Next, None, IoRes::ItemErr);
            return Poll::Ready(Some(Err(SimIoError("poll_next"))));
        }
        match s.inbound.pop_front() {
            Some(Ok(item)) => {
                let m = item.snap();
                s.streak = 0;
                drop(s);
                self.log(IoOp::Next, None, IoRes::Item(m));
                Poll::Ready(Some(Ok(item)))
            }
            Some(Err(())) => {
                drop(s);
                self.log(IoOp::Next, None, IoRes::ItemErr);
                Poll::Ready(Some(Err(SimIoError("poll_next"))))
            }
            None if s.in_closed => {
                s.read_ended = true;
                drop(s);
                self.log(IoOp::Next, None, IoRes::End);
                Poll::Ready(None)
            }
            None => {
                s.read_waker = Some(cx.waker().clone());
                drop(s);
                self.log(IoOp::Next, None, IoRes::Pending);
                Poll::Pending
            }
        }
    }
}

impl<S: Snap, I> Sink<S> for SimTransport<S, I> {
    type Error = SimIoError;

    fn poll_ready(self: Pin<&mut Self>, cx: &mut Context<'_>) -> Poll<Result<(), SimIoError>> {
        let mut s = self.st.borrow_mut();
        if s.take_fault(IoOp::Ready) {
            drop(s);
            self.log(IoOp::Ready, None, IoRes::Err);
            return Poll::Ready(Err(SimIoError("poll_ready")));
        }
        if s.buffer.len() >= s.cap && !s.independent {
            s.move_to_wire();
        }
        if s.buffer.len() < s.cap {
            s.streak = 0;
            drop(s);
            self.log(IoOp::Ready, None, IoRes::Ok);
            return Poll::Ready(Ok(()));
        }
        s.write_waker = Some(cx.waker().clone());
        let ps = self.hist.0.poll_seq.get();
        if s.streak_poll != ps {
            s.streak_poll = ps;
            s.streak = 0;
        }
        s.streak += 1;
        if s.streak > s.max_streak {
            s.max_streak = s.streak;
        }
        let streak = s.streak;
        drop(s);
        self.log(IoOp::Ready, None, IoRes::Pending);
        if streak >= SPIN_PANIC {
            panic!("SIM-SPIN: poll_ready returned Pending {streak} times in one poll without the task yielding");
        }
        Poll::Pending
    }

    fn start_send(self: Pin<&mut Self>, item: S) -> Result<(), SimIoError> {
        let m = item.snap();
        let mut s = self.st.borrow_mut();
        if s.take_fault(IoOp::Send) {
            drop(s);
            self.log(IoOp::Send, Some(m), IoRes::Err);
            return Err(SimIoError("start_send"));
        }
        if s.strict && s.buffer.len() >= s.cap {
            s.overflow_errors += 1;
            drop(s);
            self.log(IoOp::Send, Some(m), IoRes::Err);
            return Err(SimIoError("start_send (buffer full: no preceding poll_ready)"));
        }
        s.buffer.push_back(item);
        s.total_sent += 1;
        s.streak = 0;
        if s.independent {
            s.move_to_wire();
        }
        drop(s);
        self.log(IoOp::Send, Some(m), IoRes::Ok);
        Ok(())
    }

    fn poll_flush(self: Pin<&mut Self>, cx: &mut Context<'_>) -> Poll<Result<(), SimIoError>> {
        let mut s = self.st.borrow_mut();
        if s.take_fault(IoOp::Flush) {
            drop(s);
            self.log(IoOp::Flush, None, IoRes::Err);
            return Poll::Ready(Err(SimIoError("poll_flush")));
        }
        if s.independent {
            drop(s);
            self.log(IoOp::Flush, None, IoRes::Ok);
            return Poll::Ready(Ok(()));
        }
        s.move_to_wire();
        if s.buffer.is_empty() {
            drop(s);
            self.log(IoOp::Flush, None, IoRes::Ok);
            Poll::Ready(Ok(()))
        } else {
            s.write_waker = Some(cx.waker().clone());
            drop(s);
            self.log(IoOp::Flush, None, IoRes::Pending);
            Poll::Pending
        }
    }

    fn poll_close(self: Pin<&mut Self>, cx: &mut Context<'_>) -> Poll<Result<(), SimIoError>> {
        let mut s = self.st.borrow_mut();
        s.close_called = true;
        if s.take_fault(IoOp::Close) {
            drop(s);
            self.log(IoOp::Close, None, IoRes::Err);
            return Poll::Ready(Err(SimIoError("poll_close")));
        }
        if s.close_pending > 0 {
            s.close_pending -= 1;
            drop(s);
            // the transport itself makes progress and wakes the task
            cx.waker().wake_by_ref();
            self.log(IoOp::Close, None, IoRes::Pending);
            return Poll::Pending;
        }
        if !s.independent {
            s.move_to_wire();
            if !s.buffer.is_empty() {
                s.write_waker = Some(cx.waker().clone());
                drop(s);
                self.log(IoOp::Close, None, IoRes::Pending);
                return Poll::Pending;
            }
        }
        s.closed = true;
        drop(s);
        self.log(IoOp::Close, None, IoRes::Ok);
        Poll::Ready(Ok(()))
    }
}

impl<S, I> SimTransport<S, I> {
    pub fn handle(&self) -> SimHandle<S, I> {
        SimHandle { st: self.st.clone() }
    }
    #[allow(dead_code)]
    fn _unused(&self) {
        self.note_success();
    }
}
