//! Generic driver: regressions, known-finding probes, proptest generation on worker threads,
//! shrinking, replay files, evidence.

use proptest::strategy::{BoxedStrategy, Strategy};
use proptest::test_runner::{Config, RngSeed, TestCaseError, TestError, TestRunner};
use serde::{de::DeserializeOwned, Serialize};
use std::collections::{BTreeMap, HashSet};
use std::path::{Path, PathBuf};
use std::sync::atomic::{AtomicBool, AtomicU64, Ordering};
use std::sync::{Arc, Mutex};
use std::time::Instant;

#[derive(Clone, Copy, Debug, PartialEq, Eq)]
pub enum Tier {
    Quick,
    Thorough,
}

impl Tier {
    pub fn name(self) -> &'static str {
        match self {
            Tier::Quick => "quick",
            Tier::Thorough => "thorough",
        }
    }
}

#[derive(Clone, Debug, Default)]
pub struct CaseOk {
    pub nontrivial: bool,
    pub classes: Vec<&'static str>,
    pub excluded_known: u32,
}

#[derive(Clone, Debug)]
pub struct Violation {
    pub msg: String,
    /// signature name of a known-finding predicate this violation matches, if any
    pub sig: Option<String>,
    pub detail: serde_json::Value,
}

impl Violation {
    pub fn new(msg: impl Into<String>) -> Self {
        Violation {
            msg: msg.into(),
            sig: None,
            detail: serde_json::Value::Null,
        }
    }
    pub fn with_sig(mut self, sig: &str) -> Self {
        self.sig = Some(sig.to_string());
        self
    }
    pub fn with_detail(mut self, d: serde_json::Value) -> Self {
        self.detail = d;
        self
    }
}

pub type CaseResult = Result<CaseOk, Violation>;

pub struct Work {
    pub cases_per_worker: u32,
    pub workers: usize,
}

pub trait Prop: Sync {
    type Scenario: Serialize + DeserializeOwned + std::fmt::Debug + Clone + Send + Sync + 'static;
    fn id(&self) -> &'static str;
    fn rule(&self) -> String;
    fn assumptions(&self) -> Vec<String> {
        vec![]
    }
    fn work(&self, tier: Tier) -> Work;
    fn strategy(&self, tier: Tier) -> BoxedStrategy<Self::Scenario>;
    fn run_case(&self, sc: &Self::Scenario) -> CaseResult;
    /// Deterministic reproductions of known findings: (signature, what fails, scenario).
    fn probes(&self) -> Vec<(String, String, Self::Scenario)> {
        vec![]
    }
    /// Extra deterministic work (e.g. real-thread runs); returns (evaluations, nontrivial, samples)
    fn extra(&self, _tier: Tier, _seed: u64) -> Result<ExtraStats, Violation> {
        Ok(ExtraStats::default())
    }
    /// Write a replay file for a violation found by `extra` (not scenario-shaped).
    fn extra_replay(&self, _v: &Violation) -> Option<serde_json::Value> {
        None
    }
}

#[derive(Default, Clone, Debug)]
pub struct ExtraStats {
    pub evaluations: u64,
    pub nontrivial: u64,
    pub samples: Vec<serde_json::Value>,
    pub notes: BTreeMap<String, serde_json::Value>,
}

pub struct RunArgs {
    pub tier: Tier,
    pub seed: u64,
    pub replay: Option<PathBuf>,
    pub cases_override: Option<u32>,
    pub workers_override: Option<usize>,
}

pub fn verif_root() -> PathBuf {
    std::env::var("VERIF_ROOT")
        .map(PathBuf::from)
        .unwrap_or_else(|_| PathBuf::from("/verif"))
}

#[derive(Default)]
struct Stats {
    evaluations: u64,
    nontrivial_fps: HashSet<u64>,
    classes: BTreeMap<&'static str, u64>,
    samples: Vec<serde_json::Value>,
    excluded_known: u64,
    known_hits: BTreeMap<String, u64>,
}

fn fingerprint(s: &str) -> u64 {
    // FNV-1a 64
    let mut h: u64 = 0xcbf29ce484222325;
    for b in s.as_bytes() {
        h ^= *b as u64;
        h = h.wrapping_mul(0x100000001b3);
    }
    h
}

pub struct Findings {
    pub open: Vec<(String, String, String)>, // (property, sig, text)
    pub fixed: Vec<(String, String)>,
}

pub fn load_findings() -> Findings {
    let p = verif_root().join("KNOWN_FINDINGS.txt");
    let mut f = Findings {
        open: vec![],
        fixed: vec![],
    };
    if let Ok(txt) = std::fs::read_to_string(p) {
        for line in txt.lines() {
            let line = line.trim();
            if let Some(rest) = line.strip_prefix("open:") {
                let rest = rest.trim();
                let mut prop = String::new();
                let mut sig = String::new();
                let mut words = vec![];
                for w in rest.split_whitespace() {
                    if let Some(v) = w.strip_prefix("property=") {
                        if prop.is_empty() {
                            prop = v.to_string();
                            continue;
                        }
                    }
                    if let Some(v) = w.strip_prefix("sig=") {
                        if sig.is_empty() {
                            sig = v.to_string();
                            continue;
                        }
                    }
                    words.push(w);
                }
                f.open.push((prop, sig, words.join(" ")));
            } else if let Some(rest) = line.strip_prefix("fixed:") {
                let rest = rest.trim();
                let prop = rest
                    .split_whitespace()
                    .find_map(|w| w.strip_prefix("property="))
                    .unwrap_or("")
                    .to_string();
                f.fixed.push((prop, rest.to_string()));
            }
        }
    }
    f
}

impl Findings {
    pub fn open_text(&self, prop: &str, sig: &str) -> Option<String> {
        self.open
            .iter()
            .find(|(p, s, _)| p == prop && s == sig)
            .map(|(_, _, t)| t.clone())
    }
}

fn write_replay(id: &str, tag: &str, v: &serde_json::Value) -> PathBuf {
    let dir = verif_root().join("out").join("replays");
    let _ = std::fs::create_dir_all(&dir);
    let p = dir.join(format!("{id}-{tag}.json"));
    let _ = std::fs::write(&p, serde_json::to_string_pretty(v).unwrap_or_default());
    p
}

/// Per-thread case runner wrapper: enables the virtual clock and quiet panics.
fn on_sim_thread<R: Send>(f: impl FnOnce() -> R + Send) -> R {
    std::thread::scope(|s| {
        std::thread::Builder::new()
            .stack_size(64 << 20)
            .spawn_scoped(s, || {
                crate::sim::exec::set_quiet(true);
                f()
            })
            .expect("spawn")
            .join()
            .expect("sim thread panicked")
    })
}

const MAX_WORKERS: usize = 64;
#[allow(clippy::declare_interior_mutable_const)]
const ZERO: AtomicU64 = AtomicU64::new(0);
static CASE_STARTS: [AtomicU64; MAX_WORKERS] = [ZERO; MAX_WORKERS];

fn start_watchdog(limit_s: u64) {
    static ONCE: std::sync::Once = std::sync::Once::new();
    ONCE.call_once(|| {
        std::thread::spawn(move || loop {
            std::thread::sleep(std::time::Duration::from_millis(500));
            let now = crate::sim::clock::real_ms();
            for c in CASE_STARTS.iter() {
                let started = c.load(Ordering::SeqCst);
                if started != 0 && now > started && now - started > limit_s * 1000 {
                    println!("INCONCLUSIVE: a single case exceeded {limit_s}s of real time (hang); not a violation");
                    std::process::exit(2);
                }
            }
        });
    });
}

pub fn run_prop<P: Prop>(p: &P, args: &RunArgs) -> i32 {
    let t0 = Instant::now();
    crate::sim::exec::install_panic_hook();
    let id = p.id();
    let findings = load_findings();
    start_watchdog(120);

    // ---- replay mode
    if let Some(path) = &args.replay {
        let txt = match std::fs::read_to_string(path) {
            Ok(t) => t,
            Err(e) => {
                println!("INCONCLUSIVE: cannot read replay file {}: {e}", path.display());
                return 2;
            }
        };
        let v: serde_json::Value = match serde_json::from_str(&txt) {
            Ok(v) => v,
            Err(e) => {
                println!("INCONCLUSIVE: replay file is not JSON: {e}");
                return 2;
            }
        };
        let scv = v.get("scenario").cloned().unwrap_or(v);
        let sc: P::Scenario = match serde_json::from_value(scv) {
            Ok(s) => s,
            Err(e) => {
                println!("INCONCLUSIVE: replay file does not decode as a {id} scenario: {e}");
                return 2;
            }
        };
        let r = on_sim_thread(|| p.run_case(&sc));
        return match r {
            Ok(ok) => {
                println!("replay {id}: property held (nontrivial={}, classes={:?})", ok.nontrivial, ok.classes);
                0
            }
            Err(v) => {
                println!("replay {id}: {}", v.msg);
                if let Some(s) = &v.sig {
                    println!("signature: {s}");
                }
                println!("detail: {}", serde_json::to_string_pretty(&v.detail).unwrap_or_default());
                println!("VIOLATION property={id} replay={}", path.display());
                1
            }
        };
    }

    // remove stale replay files of earlier runs of this check and tier
    if let Ok(rd) = std::fs::read_dir(verif_root().join("out").join("replays")) {
        let prefix = format!("{id}-{}-", args.tier.name());
        let prefix2 = format!("{id}-probe-");
        for e in rd.filter_map(|e| e.ok()) {
            let n = e.file_name().to_string_lossy().to_string();
            if n.starts_with(&prefix) || n.starts_with(&prefix2) {
                let _ = std::fs::remove_file(e.path());
            }
        }
    }
    let mut violations = 0u32;
    let mut known_lines: Vec<String> = vec![];
    let mut regressions_replayed = 0u64;

    // ---- regressions
    let regdir = verif_root().join("regressions").join(id);
    let mut regfiles: Vec<PathBuf> = std::fs::read_dir(&regdir)
        .map(|rd| rd.filter_map(|e| e.ok()).map(|e| e.path()).collect())
        .unwrap_or_default();
    regfiles.sort();
    for f in regfiles.iter().filter(|f| f.extension().map(|e| e == "json").unwrap_or(false)) {
        let Ok(txt) = std::fs::read_to_string(f) else { continue };
        let Ok(v) = serde_json::from_str::<serde_json::Value>(&txt) else { continue };
        let scv = v.get("scenario").cloned().unwrap_or(v);
        let Ok(sc) = serde_json::from_value::<P::Scenario>(scv) else {
            println!("note: regression file {} does not decode; skipped", f.display());
            continue;
        };
        regressions_replayed += 1;
        if let Err(v) = on_sim_thread(|| p.run_case(&sc)) {
            let open = v.sig.as_deref().and_then(|s| findings.open_text(id, s));
            if let Some(t) = open {
                let line = format!("KNOWN-FINDING: property={id} {t}");
                if !known_lines.contains(&line) {
                    known_lines.push(line);
                }
            } else {
                println!("regression {} fails: {}", f.display(), v.msg);
                println!("VIOLATION property={id} replay={}", f.display());
                violations += 1;
            }
        }
    }

    // ---- known-finding probes
    let mut probe_report = vec![];
    for (sig, what, sc) in p.probes() {
        let r = on_sim_thread(|| p.run_case(&sc));
        match r {
            Ok(_) => probe_report.push(format!("{sig}: no longer reproduces")),
            Err(v) => {
                let matches = v.sig.as_deref() == Some(sig.as_str());
                if matches {
                    if let Some(t) = findings.open_text(id, &sig) {
                        let line = format!("KNOWN-FINDING: property={id} {t}");
                        if !known_lines.contains(&line) {
                            known_lines.push(line);
                        }
                        probe_report.push(format!("{sig}: reproduces (open finding)"));
                        continue;
                    }
                }
                let path = write_replay(
                    id,
                    &format!("probe-{sig}"),
                    &serde_json::json!({"property": id, "what": what, "message": v.msg, "scenario": sc, "detail": v.detail}),
                );
                println!("probe {sig} ({what}) fails and is not an open finding: {}", v.msg);
                println!("VIOLATION property={id} replay={}", path.display());
                violations += 1;
            }
        }
    }

    // ---- generation
    let work = p.work(args.tier);
    let cases = args.cases_override.unwrap_or(work.cases_per_worker);
    let workers = args.workers_override.unwrap_or(work.workers).max(1);
    let stats = Arc::new(Mutex::new(Stats::default()));
    let failed = Arc::new(AtomicBool::new(false));
    let first_failure: Arc<Mutex<Option<(usize, String, serde_json::Value, Violation)>>> =
        Arc::new(Mutex::new(None));

    std::thread::scope(|scope| {
        for w in 0..workers {
            let stats = stats.clone();
            let failed = failed.clone();
            let first_failure = first_failure.clone();
            let findings = &findings;
            let tier = args.tier;
            let seed = args.seed.wrapping_mul(1000).wrapping_add(w as u64);
            std::thread::Builder::new()
                .stack_size(64 << 20)
                .spawn_scoped(scope, move || {
                    crate::sim::exec::set_quiet(true);
                    let strat = p.strategy(tier);
                    let cfg = Config {
                        cases,
                        failure_persistence: None,
                        rng_seed: RngSeed::Fixed(seed),
                        max_shrink_iters: 3000,
                        ..Config::default()
                    };
                    let mut runner = TestRunner::new(cfg);
                    let last_v: std::cell::RefCell<Option<Violation>> = std::cell::RefCell::new(None);
                    let my_failed = std::cell::Cell::new(false);
                    let res = runner.run(&strat, |sc| {
                        if failed.load(Ordering::SeqCst) && !my_failed.get() {
                            // another worker failed: stop quickly without counting
                            return Ok(());
                        }
                        CASE_STARTS[w % MAX_WORKERS].store(crate::sim::clock::real_ms(), Ordering::SeqCst);
                        let r = match std::panic::catch_unwind(std::panic::AssertUnwindSafe(|| p.run_case(&sc))) {
                            Ok(r) => r,
                            Err(_) => {
                                let m = crate::sim::exec::take_last_panic().unwrap_or_default();
                                println!("INCONCLUSIVE: the harness itself panicked outside the code under test ({m}); scenario: {}", serde_json::to_string(&sc).unwrap_or_default());
                                std::process::exit(2);
                            }
                        };
                        CASE_STARTS[w % MAX_WORKERS].store(0, Ordering::SeqCst);
                        match r {
                            Ok(ok) => {
                                if !my_failed.get() {
                                    let js = serde_json::to_string(&sc).unwrap_or_default();
                                    let mut st = stats.lock().unwrap();
                                    st.evaluations += 1;
                                    st.excluded_known += ok.excluded_known as u64;
                                    for c in &ok.classes {
                                        *st.classes.entry(c).or_insert(0) += 1;
                                    }
                                    if ok.nontrivial {
                                        let fp = fingerprint(&js);
                                        if st.nontrivial_fps.insert(fp) && st.samples.len() < 5 {
                                            st.samples.push(serde_json::to_value(&sc).unwrap_or_default());
                                        }
                                    }
                                }
                                Ok(())
                            }
                            Err(v) => {
                                if let Some(sig) = &v.sig {
                                    if findings.open_text(p.id(), sig).is_some() {
                                        if !my_failed.get() {
                                            let mut st = stats.lock().unwrap();
                                            st.evaluations += 1;
                                            *st.known_hits.entry(sig.clone()).or_insert(0) += 1;
                                        }
                                        return Ok(());
                                    }
                                }
                                if !my_failed.get() {
                                    my_failed.set(true);
                                    failed.store(true, Ordering::SeqCst);
                                    let mut st = stats.lock().unwrap();
                                    st.evaluations += 1;
                                }
                                let msg = v.msg.clone();
                                *last_v.borrow_mut() = Some(v);
                                Err(TestCaseError::fail(msg))
                            }
                        }
                    });
                    if let Err(e) = res {
                        match e {
                            TestError::Fail(reason, sc) => {
                                // re-run the minimal scenario to get its own violation record
                                let v = match p.run_case(&sc) {
                                    Err(v) => v,
                                    Ok(_) => last_v
                                        .borrow_mut()
                                        .take()
                                        .unwrap_or_else(|| Violation::new(reason.to_string())),
                                };
                                let mut ff = first_failure.lock().unwrap();
                                if ff.is_none() {
                                    *ff = Some((
                                        w,
                                        reason.to_string(),
                                        serde_json::to_value(&sc).unwrap_or_default(),
                                        v,
                                    ));
                                }
                            }
                            TestError::Abort(reason) => {
                                eprintln!("worker {w}: proptest aborted: {reason}");
                            }
                        }
                    }
                })
                .expect("spawn worker");
        }
    });

    if let Some((w, _reason, scv, v)) = first_failure.lock().unwrap().take() {
        let path = write_replay(
            id,
            &format!("{}-{}-w{w}", args.tier.name(), args.seed),
            &serde_json::json!({"property": id, "seed": args.seed, "worker": w, "message": v.msg, "scenario": scv, "detail": v.detail}),
        );
        println!("violation (shrunk): {}", v.msg);
        println!("VIOLATION property={id} replay={}", path.display());
        violations += 1;
    }

    // ---- extra deterministic work
    let mut extra = ExtraStats::default();
    match on_sim_thread(|| p.extra(args.tier, args.seed)) {
        Ok(e) => extra = e,
        Err(v) => {
            let open = v.sig.as_deref().and_then(|s| findings.open_text(id, s));
            if let Some(t) = open {
                let line = format!("KNOWN-FINDING: property={id} {t}");
                if !known_lines.contains(&line) {
                    known_lines.push(line);
                }
            } else {
                let payload = p
                    .extra_replay(&v)
                    .unwrap_or_else(|| serde_json::json!({"message": v.msg, "detail": v.detail}));
                let path = write_replay(id, &format!("{}-{}-extra", args.tier.name(), args.seed), &payload);
                println!("violation (extra work): {}", v.msg);
                println!("VIOLATION property={id} replay={}", path.display());
                violations += 1;
            }
        }
    }

    for l in &known_lines {
        println!("{l}");
    }

    // ---- evidence
    let st = stats.lock().unwrap();
    let mut samples = st.samples.clone();
    samples.extend(extra.samples.iter().cloned());
    let evaluations = st.evaluations + extra.evaluations + regressions_replayed;
    let distinct_nontrivial = st.nontrivial_fps.len() as u64 + extra.nontrivial;
    let wall = t0.elapsed().as_secs_f64();
    let ev = serde_json::json!({
        "property_id": id,
        "tier": args.tier.name(),
        "seed": args.seed,
        "level": "exploration",
        "coverage": {
            "evaluations": evaluations,
            "distinct_nontrivial": distinct_nontrivial,
            "rule": p.rule(),
            "samples": samples,
            "classes": st.classes,
            "excluded_known": st.excluded_known,
            "known_finding_hits": st.known_hits,
            "workers": workers,
            "cases_per_worker": cases,
            "regressions_replayed": regressions_replayed,
            "probes": probe_report,
            "extra": extra.notes,
            "exhaustive": false,
        },
        "assumptions": p.assumptions(),
        "wall_s": wall,
        "violations": violations,
    });
    let evdir = verif_root().join("evidence");
    let _ = std::fs::create_dir_all(&evdir);
    let _ = std::fs::write(
        evdir.join(format!("{id}.json")),
        serde_json::to_string_pretty(&ev).unwrap_or_default(),
    );
    println!(
        "{id} {}: evaluations={} distinct_nontrivial={} classes={:?} violations={} wall={:.1}s",
        args.tier.name(),
        evaluations,
        distinct_nontrivial,
        st.classes,
        violations,
        wall
    );
    if violations > 0 {
        1
    } else {
        0
    }
}

pub fn read_json<T: DeserializeOwned>(p: &Path) -> Option<T> {
    serde_json::from_str(&std::fs::read_to_string(p).ok()?).ok()
}

pub fn boxed<S: Strategy + 'static>(s: S) -> BoxedStrategy<S::Value> {
    s.boxed()
}
