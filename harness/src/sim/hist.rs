//! Shared history: structural record of everything that happened in one case.

use serde::Serialize;
use std::cell::{Cell, RefCell};
use std::rc::Rc;

pub fn ser_str<T: std::fmt::Display, S: serde::Serializer>(v: &T, s: S) -> Result<S::Ok, S::Error> {
    s.serialize_str(&v.to_string())
}

#[derive(Clone, Copy, Debug, PartialEq, Eq, Serialize, Default, Hash)]
pub struct Tc {
    #[serde(serialize_with = "ser_str")]
    pub trace_id: u128,
    pub span_id: u64,
    pub sampled: bool,
}

impl From<tarpc::trace::Context> for Tc {
    fn from(c: tarpc::trace::Context) -> Self {
        Tc {
            trace_id: u128::from(c.trace_id),
            span_id: u64::from(c.span_id),
            sampled: c.sampling_decision == tarpc::trace::SamplingDecision::Sampled,
        }
    }
}

impl Tc {
    pub fn to_tarpc(self) -> tarpc::trace::Context {
        tarpc::trace::Context {
            trace_id: tarpc::trace::TraceId::from(self.trace_id),
            span_id: tarpc::trace::SpanId::from(self.span_id),
            sampling_decision: if self.sampled {
                tarpc::trace::SamplingDecision::Sampled
            } else {
                tarpc::trace::SamplingDecision::Unsampled
            },
        }
    }
}

#[derive(Clone, Debug, PartialEq, Eq, Serialize)]
pub enum Msg {
    Request {
        id: u64,
        body: u64,
        /// deadline as virtual offset in ns (may be negative = before case start)
        #[serde(serialize_with = "ser_str")]
        deadline_ns: i128,
        trace: Tc,
    },
    Cancel {
        id: u64,
        trace: Tc,
    },
    Response {
        id: u64,
        /// Ok(payload) or Err((kind, detail))
        result: Result<u64, (String, String)>,
    },
}

impl Msg {
    pub fn id(&self) -> u64 {
        match self {
            Msg::Request { id, .. } | Msg::Cancel { id, .. } | Msg::Response { id, .. } => *id,
        }
    }
}

pub trait Snap {
    fn snap(&self) -> Msg;
}

impl Snap for tarpc::ClientMessage<u64> {
    fn snap(&self) -> Msg {
        match self {
            tarpc::ClientMessage::Request(r) => Msg::Request {
                id: r.id,
                body: r.message,
                deadline_ns: crate::sim::clock::offset_of(r.context.deadline),
                trace: r.context.trace_context.into(),
            },
            tarpc::ClientMessage::Cancel {
                trace_context,
                request_id,
            } => Msg::Cancel {
                id: *request_id,
                trace: (*trace_context).into(),
            },
            _ => unreachable!("non-exhaustive ClientMessage"),
        }
    }
}

impl Snap for tarpc::Response<u64> {
    fn snap(&self) -> Msg {
        Msg::Response {
            id: self.request_id,
            result: match &self.message {
                Ok(v) => Ok(*v),
                Err(e) => Err((format!("{:?}", e.kind), e.detail.clone())),
            },
        }
    }
}

#[derive(Clone, Copy, Debug, PartialEq, Eq, Serialize)]
pub enum IoOp {
    Ready = 0,
    Send = 1,
    Flush = 2,
    Close = 3,
    Next = 4,
}

#[derive(Clone, Debug, PartialEq, Eq, Serialize)]
pub enum IoRes {
    Ok,
    Pending,
    Err,
    Item(Msg),
    ItemErr,
    End,
}

/// Outcome of a client call as seen by the caller.
#[derive(Clone, Debug, PartialEq, Eq, Serialize)]
pub enum Outcome {
    Ok(u64),
    Server(String, String),
    Deadline,
    Shutdown,
    Send,
    /// Channel(activity)
    Channel(String),
}

#[derive(Clone, Debug, Serialize)]
pub enum Ev {
    /// environment op applied (index into scenario ops, short description)
    Env { op: String },
    PollStart {
        task: usize,
        /// polled with a nearly exhausted cooperative-scheduling budget (StepCoop): tokio resources may
        /// answer Pending although they hold items; the wake-up they schedule is delivered at the next yield
        coop: bool,
    },
    PollEnd {
        task: usize,
        out: String,
        /// the task's wake flag was already set again when the poll returned (it is not idle)
        woken: bool,
    },
    Io {
        tr: u8,
        task: Option<usize>,
        op: IoOp,
        sent: Option<Msg>,
        res: IoRes,
    },
    CallCreated {
        call: usize,
        body: u64,
        #[serde(serialize_with = "ser_str")]
        deadline_ns: i128,
        trace: Tc,
        handle: usize,
    },
    CallResolved { call: usize, outcome: Outcome },
    CallDropped { call: usize },
    DispatchEnd { hop: usize, result: Result<(), String> },
    HandleDropped { handle: usize },
    Yield { point: &'static str, call: usize },
    // server side
    ReqYielded {
        inst: usize,
        id: u64,
        #[serde(serialize_with = "ser_str")]
        deadline_ns: i128,
        trace: Tc,
        hop: usize,
    },
    ReqStreamErr { hop: usize, err: String },
    ReqStreamEnd { hop: usize },
    HandlerStarted { inst: usize },
    HandlerPolled { inst: usize },
    HandlerCompleted { inst: usize, result: Result<u64, String> },
    HandlerDropped { inst: usize, finished: bool },
    ExecReturned { inst: usize },
    ChannelDropped { hop: usize },
    Quiescent { probes: Probes },
    Note { text: String },
}

#[derive(Clone, Debug, Default, Serialize, PartialEq, Eq)]
pub struct Probes {
    pub client_in_flight: Option<usize>,
    pub client_timers: Option<usize>,
    pub server_in_flight: Option<usize>,
    pub server_timers: Option<usize>,
    /// client transport: items waiting in the inbound queue
    pub inbound_len: usize,
    /// client transport: items accepted but not yet on the wire
    pub buffered: usize,
    pub budget_zero: bool,
    pub dispatch_alive: bool,
}

#[derive(Clone, Debug, Serialize)]
pub struct Rec {
    pub seq: usize,
    pub t_ns: u64,
    pub ev: Ev,
}

#[derive(Default)]
pub struct HistInner {
    pub recs: RefCell<Vec<Rec>>,
    pub cur_task: Cell<Option<usize>>,
    pub poll_seq: Cell<u64>,
}

#[derive(Clone, Default)]
pub struct Hist(pub Rc<HistInner>);

impl Hist {
    pub fn new() -> Self {
        Self::default()
    }
    pub fn push(&self, ev: Ev) -> usize {
        let mut r = self.0.recs.borrow_mut();
        let seq = r.len();
        r.push(Rec {
            seq,
            t_ns: crate::sim::clock::now_ns(),
            ev,
        });
        seq
    }
    pub fn len(&self) -> usize {
        self.0.recs.borrow().len()
    }
    pub fn snapshot(&self) -> Vec<Rec> {
        self.0.recs.borrow().clone()
    }
    pub fn with<R>(&self, f: impl FnOnce(&[Rec]) -> R) -> R {
        f(&self.0.recs.borrow())
    }
    pub fn tail_json(&self, n: usize) -> serde_json::Value {
        let r = self.0.recs.borrow();
        let start = r.len().saturating_sub(n);
        serde_json::to_value(&r[start..]).unwrap_or(serde_json::Value::Null)
    }
}
