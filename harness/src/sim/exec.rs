//! Manual executor: a task is polled only when its wake flag is set. Every scheduling choice is
//! made by the caller (the scenario interpreter).

use futures::task::{waker, ArcWake};
use std::cell::{Cell, RefCell};
use std::future::Future;
use std::panic::{catch_unwind, AssertUnwindSafe};
use std::pin::Pin;
use std::sync::atomic::{AtomicBool, AtomicU64, Ordering};
use std::sync::Arc;
use std::task::{Context, Poll};

pub type TaskId = usize;
pub type BoxFut = Pin<Box<dyn Future<Output = ()>>>;

pub struct WakeFlag {
    pub woken: AtomicBool,
    pub wakes: AtomicU64,
}

impl ArcWake for WakeFlag {
    fn wake_by_ref(arc_self: &Arc<Self>) {
        arc_self.woken.store(true, Ordering::SeqCst);
        arc_self.wakes.fetch_add(1, Ordering::SeqCst);
    }
}

#[derive(Clone, Copy, Debug, PartialEq, Eq)]
pub enum TaskState {
    Alive,
    Done,
    Panicked,
    Dropped,
}

#[derive(Clone, Debug, PartialEq, Eq)]
pub enum PollOut {
    Pending,
    Ready,
    Panicked(String),
}

struct Slot {
    name: String,
    fut: Option<BoxFut>,
    flag: Arc<WakeFlag>,
    state: TaskState,
    polls: u64,
    in_poll: bool,
}

#[derive(Default)]
pub struct Exec {
    slots: RefCell<Vec<Slot>>,
    pub total_polls: Cell<u64>,
}

thread_local! {
    static LAST_PANIC: RefCell<Option<String>> = const { RefCell::new(None) };
    static QUIET: Cell<bool> = const { Cell::new(false) };
}

/// Install a process-wide panic hook that records message+location in a thread-local and stays
/// silent on threads that asked for quiet (simulation threads).
pub fn install_panic_hook() {
    static ONCE: std::sync::Once = std::sync::Once::new();
    ONCE.call_once(|| {
        let prev = std::panic::take_hook();
        std::panic::set_hook(Box::new(move |info| {
            let msg = if let Some(s) = info.payload().downcast_ref::<&str>() {
                s.to_string()
            } else if let Some(s) = info.payload().downcast_ref::<String>() {
                s.clone()
            } else {
                "<non-string panic>".to_string()
            };
            let loc = info
                .location()
                .map(|l| format!("{}:{}", l.file(), l.line()))
                .unwrap_or_default();
            let full = format!("{msg} @ {loc}");
            let _ = LAST_PANIC.try_with(|p| *p.borrow_mut() = Some(full));
            let quiet = QUIET.try_with(|q| q.get()).unwrap_or(false);
            if !quiet {
                prev(info);
            }
        }));
    });
}

pub fn set_quiet(q: bool) {
    let q = q && std::env::var("VERIF_LOUD").is_err();
    QUIET.with(|c| c.set(q));
}

pub fn take_last_panic() -> Option<String> {
    LAST_PANIC.with(|p| p.borrow_mut().take())
}

/// Run `f`, catching a panic and returning its recorded message.
pub fn catch<R>(f: impl FnOnce() -> R) -> Result<R, String> {
    let _ = take_last_panic();
    match catch_unwind(AssertUnwindSafe(f)) {
        Ok(r) => Ok(r),
        Err(_) => Err(take_last_panic().unwrap_or_else(|| "<panic>".into())),
    }
}

impl Exec {
    pub fn new() -> Self {
        Self::default()
    }

    pub fn spawn(&self, name: impl Into<String>, fut: BoxFut) -> TaskId {
        let mut s = self.slots.borrow_mut();
        s.push(Slot {
            name: name.into(),
            fut: Some(fut),
            flag: Arc::new(WakeFlag {
                woken: AtomicBool::new(true),
                wakes: AtomicU64::new(0),
            }),
            state: TaskState::Alive,
            polls: 0,
            in_poll: false,
        });
        s.len() - 1
    }

    pub fn state(&self, id: TaskId) -> TaskState {
        self.slots.borrow()[id].state
    }

    pub fn name(&self, id: TaskId) -> String {
        self.slots.borrow()[id].name.clone()
    }

    pub fn polls(&self, id: TaskId) -> u64 {
        self.slots.borrow()[id].polls
    }

    pub fn is_woken(&self, id: TaskId) -> bool {
        let s = self.slots.borrow();
        s[id].state == TaskState::Alive && !s[id].in_poll && s[id].flag.woken.load(Ordering::SeqCst)
    }

    /// Tasks that may be polled now, in id order.
    pub fn woken(&self) -> Vec<TaskId> {
        let s = self.slots.borrow();
        s.iter()
            .enumerate()
            .filter(|(_, t)| {
                t.state == TaskState::Alive && !t.in_poll && t.flag.woken.load(Ordering::SeqCst)
            })
            .map(|(i, _)| i)
            .collect()
    }

    /// Poll once. The caller must only poll woken tasks (asserted).
    pub fn poll(&self, id: TaskId) -> PollOut {
        let (mut fut, flag) = {
            let mut s = self.slots.borrow_mut();
            let t = &mut s[id];
            assert!(t.state == TaskState::Alive && !t.in_poll, "poll of non-pollable task");
            assert!(t.flag.woken.load(Ordering::SeqCst), "poll of task that was not woken");
            t.flag.woken.store(false, Ordering::SeqCst);
            t.in_poll = true;
            t.polls += 1;
            (t.fut.take().expect("future present"), t.flag.clone())
        };
        self.total_polls.set(self.total_polls.get() + 1);
        let w = waker(flag);
        let mut cx = Context::from_waker(&w);
        let r = catch(|| fut.as_mut().poll(&mut cx));
        match r {
            Ok(Poll::Pending) => {
                let mut s = self.slots.borrow_mut();
                s[id].fut = Some(fut);
                s[id].in_poll = false;
                PollOut::Pending
            }
            Ok(Poll::Ready(())) => {
                {
                    let mut s = self.slots.borrow_mut();
                    s[id].state = TaskState::Done;
                    s[id].in_poll = false;
                }
                let _ = catch(move || drop(fut));
                PollOut::Ready
            }
            Err(msg) => {
                {
                    let mut s = self.slots.borrow_mut();
                    s[id].state = TaskState::Panicked;
                    s[id].in_poll = false;
                }
                let _ = catch(move || drop(fut));
                PollOut::Panicked(msg)
            }
        }
    }

    /// Drop a task's future (abandon). Returns a panic message if the drop panicked.
    pub fn drop_task(&self, id: TaskId) -> Option<String> {
        let fut = {
            let mut s = self.slots.borrow_mut();
            let t = &mut s[id];
            if t.state != TaskState::Alive || t.in_poll {
                return None;
            }
            t.state = TaskState::Dropped;
            t.fut.take()
        };
        match fut {
            Some(f) => catch(move || drop(f)).err(),
            None => None,
        }
    }

    /// Drop every remaining future (end of case), swallowing panics.
    pub fn drop_all(&self) {
        let n = self.slots.borrow().len();
        for id in (0..n).rev() {
            let _ = self.drop_task(id);
        }
    }

    pub fn len(&self) -> usize {
        self.slots.borrow().len()
    }
}
