//! In-memory byte pipe with scripted fragmentation: AsyncRead + AsyncWrite ends.
//! Bytes written go to `transit`; they become readable when delivered (immediately in auto mode,
//! or when the environment calls `deliver`).

use std::cell::RefCell;
use std::collections::VecDeque;
use std::io;
use std::pin::Pin;
use std::rc::Rc;
use std::task::{Context, Poll, Waker};
use tokio::io::{AsyncRead, AsyncWrite, ReadBuf};

#[derive(Default)]
pub struct Half {
    pub transit: VecDeque<u8>,
    pub readable: VecDeque<u8>,
    pub write_closed: bool,
    pub read_waker: Option<Waker>,
    pub auto_deliver: bool,
    /// fragmentation script for writes: 0 = Pending (self-wake), n = accept at most n bytes; cycles
    pub write_script: Vec<u8>,
    pub write_pos: usize,
    /// fragmentation script for reads: 0 = Pending (self-wake), n = return at most n bytes; cycles
    pub read_script: Vec<u8>,
    pub read_pos: usize,
    pub partial_writes: u32,
    pub partial_reads: u32,
    pub pending_writes: u32,
    pub pending_reads: u32,
    pub total_written: u64,
}

impl Half {
    fn next_write(&mut self) -> u8 {
        if self.write_script.is_empty() {
            return 255;
        }
        let v = self.write_script[self.write_pos % self.write_script.len()];
        self.write_pos += 1;
        v
    }
    fn next_read(&mut self) -> u8 {
        if self.read_script.is_empty() {
            return 255;
        }
        let v = self.read_script[self.read_pos % self.read_script.len()];
        self.read_pos += 1;
        v
    }
}

pub type HalfRef = Rc<RefCell<Half>>;

/// One end: reads from `rx`, writes into `tx`.
pub struct PipeEnd {
    pub rx: HalfRef,
    pub tx: HalfRef,
}

pub fn pipe() -> (PipeEnd, PipeEnd) {
    let a: HalfRef = Rc::new(RefCell::new(Half::default()));
    let b: HalfRef = Rc::new(RefCell::new(Half::default()));
    (PipeEnd { rx: a.clone(), tx: b.clone() }, PipeEnd { rx: b, tx: a })
}

/// Move up to `n` bytes (None = all) from transit to readable and wake the reader.
pub fn deliver(h: &HalfRef, n: Option<usize>) -> usize {
    let (moved, w) = {
        let mut s = h.borrow_mut();
        let k = n.unwrap_or(usize::MAX).min(s.transit.len());
        for _ in 0..k {
            let b = s.transit.pop_front().unwrap();
            s.readable.push_back(b);
        }
        let w = if k > 0 || s.write_closed { s.read_waker.take() } else { None };
        (k, w)
    };
    if let Some(w) = w {
        w.wake();
    }
    moved
}

impl Drop for PipeEnd {
    fn drop(&mut self) {
        let w = {
            let mut s = self.tx.borrow_mut();
            s.write_closed = true;
            if s.auto_deliver || s.transit.is_empty() {
                s.read_waker.take()
            } else {
                None
            }
        };
        if let Some(w) = w {
            w.wake();
        }
    }
}

impl AsyncRead for PipeEnd {
    fn poll_read(self: Pin<&mut Self>, cx: &mut Context<'_>, buf: &mut ReadBuf<'_>) -> Poll<io::Result<()>> {
        let mut s = self.rx.borrow_mut();
        if s.readable.is_empty() {
            if s.write_closed && s.transit.is_empty() {
                return Poll::Ready(Ok(())); // EOF
            }
            s.read_waker = Some(cx.waker().clone());
            return Poll::Pending;
        }
        let lim = s.next_read();
        if lim == 0 {
            s.pending_reads += 1;
            cx.waker().wake_by_ref();
            return Poll::Pending;
        }
        let k = (lim as usize).min(s.readable.len()).min(buf.remaining());
        if k < s.readable.len() {
            s.partial_reads += 1;
        }
        for _ in 0..k {
            let b = s.readable.pop_front().unwrap();
            buf.put_slice(&[b]);
        }
        Poll::Ready(Ok(()))
    }
}

impl AsyncWrite for PipeEnd {
    fn poll_write(self: Pin<&mut Self>, cx: &mut Context<'_>, data: &[u8]) -> Poll<io::Result<usize>> {
        let (k, w) = {
            let mut s = self.tx.borrow_mut();
            if data.is_empty() {
                return Poll::Ready(Ok(0));
            }
            let lim = s.next_write();
            if lim == 0 {
                s.pending_writes += 1;
                cx.waker().wake_by_ref();
                return Poll::Pending;
            }
            let k = (lim as usize).min(data.len());
            if k < data.len() {
                s.partial_writes += 1;
            }
            s.total_written += k as u64;
            let auto = s.auto_deliver;
            for b in &data[..k] {
                if auto {
                    s.readable.push_back(*b);
                } else {
                    s.transit.push_back(*b);
                }
            }
            (k, if auto { s.read_waker.take() } else { None })
        };
        if let Some(w) = w {
            w.wake();
        }
        Poll::Ready(Ok(k))
    }
    fn poll_flush(self: Pin<&mut Self>, _: &mut Context<'_>) -> Poll<io::Result<()>> {
        Poll::Ready(Ok(()))
    }
    fn poll_shutdown(self: Pin<&mut Self>, _: &mut Context<'_>) -> Poll<io::Result<()>> {
        let w = {
            let mut s = self.tx.borrow_mut();
            s.write_closed = true;
            if s.auto_deliver || s.transit.is_empty() {
                s.read_waker.take()
            } else {
                None
            }
        };
        if let Some(w) = w {
            w.wake();
        }
        Poll::Ready(Ok(()))
    }
}
