pub mod clock;
pub mod exec;
pub mod hist;
pub mod pipe;
pub mod runner;
pub mod transport;
