//! Virtual time. The *binary* defines `clock_gettime` (via `define_clock_gettime!`) which
//! consults the thread-locals here: on a thread that enabled virtual time, CLOCK_MONOTONIC
//! returns BASE + offset; everything else goes to the real syscall.

use std::cell::Cell;
use std::time::{Duration, Instant};

/// Virtual monotonic base: 10^7 s, so that `now - x` never underflows for any x we generate.
pub const BASE_SECS: i64 = 10_000_000;

thread_local! {
    pub static ENABLED: Cell<bool> = const { Cell::new(false) };
    pub static OFFSET_NS: Cell<u64> = const { Cell::new(0) };
}

#[inline]
pub fn virtual_now_ns() -> Option<u64> {
    if ENABLED.with(|e| e.get()) {
        Some(OFFSET_NS.with(|o| o.get()))
    } else {
        None
    }
}

/// Called from the interposed symbol. Returns true if it filled `ts`.
/// # Safety
/// `ts` must be a valid pointer.
pub unsafe fn fill_if_virtual(clk: libc::clockid_t, ts: *mut libc::timespec) -> bool {
    if clk != libc::CLOCK_MONOTONIC {
        return false;
    }
    // try_with: never panic during thread teardown
    let en = ENABLED.try_with(|e| e.get()).unwrap_or(false);
    if !en {
        return false;
    }
    let off = OFFSET_NS.try_with(|o| o.get()).unwrap_or(0);
    (*ts).tv_sec = BASE_SECS + (off / 1_000_000_000) as i64;
    (*ts).tv_nsec = (off % 1_000_000_000) as i64;
    true
}

#[macro_export]
macro_rules! define_clock_gettime {
    () => {
        #[no_mangle]
        pub unsafe extern "C" fn clock_gettime(
            clk: libc::clockid_t,
            ts: *mut libc::timespec,
        ) -> libc::c_int {
            if $crate::sim::clock::fill_if_virtual(clk, ts) {
                return 0;
            }
            libc::syscall(libc::SYS_clock_gettime, clk as libc::c_long, ts) as libc::c_int
        }
    };
}

pub fn enable_and_reset() {
    ENABLED.with(|e| e.set(true));
    OFFSET_NS.with(|o| o.set(0));
}

pub fn disable() {
    ENABLED.with(|e| e.set(false));
}

pub fn now_ns() -> u64 {
    OFFSET_NS.with(|o| o.get())
}

pub fn bump(d: Duration) {
    OFFSET_NS.with(|o| o.set(o.get() + d.as_nanos() as u64));
}

/// Advance std's and tokio's clock in lock-step. Must run inside the paused runtime.
pub async fn advance(d: Duration) {
    bump(d);
    tokio::time::advance(d).await;
}

/// The std Instant that corresponds to virtual offset `ns`.
pub fn instant_at(ns: u64) -> Instant {
    let now = Instant::now();
    let cur = now_ns();
    if ns >= cur {
        now + Duration::from_nanos(ns - cur)
    } else {
        now - Duration::from_nanos(cur - ns)
    }
}

/// Virtual offset (ns, signed) of an Instant.
pub fn offset_of(i: Instant) -> i128 {
    let now = Instant::now();
    let cur = now_ns() as i128;
    if i >= now {
        cur + (i - now).as_nanos() as i128
    } else {
        cur - (now - i).as_nanos() as i128
    }
}

/// Exit(2) unless the interposition is effective in this process.
pub fn self_test() {
    enable_and_reset();
    let a = Instant::now();
    bump(Duration::from_secs(3600));
    let b = Instant::now();
    let ok = b.duration_since(a) == Duration::from_secs(3600);
    // another thread must see real time
    let other = std::thread::spawn(|| {
        let a = Instant::now();
        let b = Instant::now();
        b.duration_since(a) < Duration::from_secs(1)
    })
    .join()
    .unwrap_or(false);
    disable();
    OFFSET_NS.with(|o| o.set(0));
    if !ok || !other {
        eprintln!("INCONCLUSIVE: virtual clock interposition not effective (ok={ok}, other={other})");
        std::process::exit(2);
    }
}

/// Real monotonic milliseconds, bypassing the interposed symbol.
pub fn real_ms() -> u64 {
    let mut ts = libc::timespec { tv_sec: 0, tv_nsec: 0 };
    unsafe {
        libc::syscall(libc::SYS_clock_gettime, libc::CLOCK_MONOTONIC as libc::c_long, &mut ts as *mut libc::timespec);
    }
    ts.tv_sec as u64 * 1000 + ts.tv_nsec as u64 / 1_000_000
}
