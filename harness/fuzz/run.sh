#!/bin/bash
# fuzz/run.sh <target> <ID> <runs-per-job> <seed> [jobs]: build the libFuzzer target (offline, nightly; no sanitizer:
# tarpc and tarpc-plugins contain no unsafe code, the in-target oracle is what decides) against /repo's current tree
# and run <jobs> independent pinned campaigns (seeds seed*100+k, each on its own fresh corpus seeded from fuzz/seeds/<target>).
# Exit 0 clean, 1 crash (prints a VIOLATION line), 2 inconclusive (build failure, timeout/oom artifact, ...).
set -u
T=$1; ID=$2; RUNS=$3; SEED=$4; JOBS=${5:-${VERIF_FUZZ_JOBS:-8}}
HERE=$(cd "$(dirname "$0")" && pwd); ROOT=${VERIF_ROOT:-$(cd "$HERE/../.." && pwd)}
export CARGO_NET_OFFLINE=true VERIF_FUZZ_ONLY=$ID VERIF_ROOT=$ROOT
mkdir -p "$ROOT/out"
cd "$HERE/.." || exit 2
(
  flock 9
  cargo +nightly fuzz build -s none $T >"$ROOT/out/fuzz-build-$T.log" 2>&1
) 9>"$ROOT/out/.fuzz-build.lock"
if [ $? -ne 0 ]; then
  echo "INCONCLUSIVE: fuzz target $T does not build (see out/fuzz-build-$T.log)"; tail -5 "$ROOT/out/fuzz-build-$T.log"; exit 2
fi
BIN="$HERE/target/x86_64-unknown-linux-gnu/release/$T"
[ -x "$BIN" ] || { echo "INCONCLUSIVE: $BIN missing after build"; exit 2; }
W="$ROOT/out/fuzz/$ID-$T"; rm -rf "$W"; mkdir -p "$W"
[ "$SEED" = "0" ] && SEED=1
pids=()
for k in $(seq 1 $JOBS); do
  mkdir -p "$W/corpus$k" "$W/artifacts$k"
  cp "$HERE"/seeds/$T/* "$W/corpus$k/" 2>/dev/null
  ( cd "$W" && "$BIN" "$W/corpus$k" -runs=$RUNS -seed=$((SEED*100+k)) -len_control=0 -max_len=4096 -timeout=60 -rss_limit_mb=4096 \
      -artifact_prefix="$W/artifacts$k/" -print_final_stats=1 >"$W/log$k.txt" 2>&1 ) &
  pids+=($!)
done
rc=0
for p in "${pids[@]}"; do wait $p || rc=$?; done
execs=0; cov=0; corpus=0
for k in $(seq 1 $JOBS); do
  e=$(grep -oE "stat::number_of_executed_units: [0-9]+" "$W/log$k.txt" | grep -oE "[0-9]+$"); execs=$((execs+${e:-0}))
  c=$(grep -oE "cov: [0-9]+" "$W/log$k.txt" | tail -1 | grep -oE "[0-9]+"); [ "${c:-0}" -gt "$cov" ] && cov=$c
  corpus=$((corpus+$(ls "$W/corpus$k" | wc -l)))
done
echo "fuzz $T for $ID: jobs=$JOBS executed=$execs corpus_files=$corpus max_edge_cov=$cov rc=$rc"
echo "{\"target\":\"$T\",\"jobs\":$JOBS,\"executed\":$execs,\"corpus_files\":$corpus,\"edge_coverage\":$cov,\"seed\":$SEED,\"runs_per_job\":$RUNS,\"sanitizer\":\"none\",\"seed_corpus\":\"harness/fuzz/seeds/$T\"}" > "$W/stats.json"
if [ $rc -ne 0 ]; then
  art=$(ls "$W"/artifacts*/crash-* 2>/dev/null | head -1)
  if [ -z "$art" ]; then
    other=$(ls "$W"/artifacts*/timeout-* "$W"/artifacts*/oom-* 2>/dev/null | head -1)
    if [ -n "$other" ]; then echo "INCONCLUSIVE: fuzzer reported $(basename $other) (a hang or out-of-memory is never reported as a violation)"; exit 2; fi
    echo "INCONCLUSIVE: fuzzer exited $rc without an artifact"; tail -5 "$W"/log1.txt; exit 2
  fi
  if ! grep -q "VIOLATION property=" "$W"/log*.txt; then
    echo "INCONCLUSIVE: the fuzz target crashed without reporting a property violation (harness fault?): $art"; grep -h -m1 "panicked at" -A2 "$W"/log*.txt | head -4; exit 2
  fi
  mkdir -p "$ROOT/out/replays"; dst="$ROOT/out/replays/$ID-fuzz-$T-$SEED.bin"; cp "$art" "$dst"
  grep -h -m1 "VIOLATION property=" "$W"/log*.txt | head -1 | cut -c1-400
  echo "VIOLATION property=$ID replay=$dst"
  exit 1
fi
exit 0
