#!/bin/bash
# fuzz/run.sh <target> <ID> <runs> <seed>: build (offline, nightly, no sanitizer for the scheduler targets, ASan for the byte targets)
# and run one pinned libFuzzer campaign on a fresh corpus. Exit 0 clean, 1 crash (prints VIOLATION line), 2 inconclusive.
set -u
T=$1; ID=$2; RUNS=$3; SEED=$4
HERE=$(cd "$(dirname "$0")" && pwd); ROOT=${VERIF_ROOT:-$(cd "$HERE/../.." && pwd)}
export CARGO_NET_OFFLINE=true VERIF_FUZZ_ONLY=$ID VERIF_ROOT=$ROOT
SAN=none; case $T in decode|roundtrip) SAN=address;; esac
cd "$HERE/.." || exit 2
if ! cargo +nightly fuzz build -s $SAN $T >"$ROOT/out/fuzz-build-$T.log" 2>&1; then
  echo "INCONCLUSIVE: fuzz target $T does not build (see out/fuzz-build-$T.log)"; tail -5 "$ROOT/out/fuzz-build-$T.log"; exit 2
fi
W="$ROOT/out/fuzz/$ID-$T"; rm -rf "$W"; mkdir -p "$W/corpus" "$W/artifacts"
# seed corpus: a few small valid inputs committed with the harness
cp "$HERE"/seeds/$T/* "$W/corpus/" 2>/dev/null
[ "$SEED" = "0" ] && SEED=1
LOG="$W/log.txt"
cargo +nightly fuzz run -s $SAN $T "$W/corpus" -- -runs=$RUNS -seed=$SEED -len_control=0 -max_len=4096 -timeout=60 -artifact_prefix="$W/artifacts/" -print_final_stats=1 >"$LOG" 2>&1
rc=$?
execs=$(grep -oE "stat::number_of_executed_units: [0-9]+" "$LOG" | grep -oE "[0-9]+$")
cov=$(grep -oE "cov: [0-9]+" "$LOG" | tail -1 | grep -oE "[0-9]+")
corpus=$(ls "$W/corpus" | wc -l)
echo "fuzz $T for $ID: runs=${execs:-?} corpus=$corpus cov=${cov:-?} rc=$rc"
echo "{\"target\":\"$T\",\"executed\":${execs:-0},\"corpus_files\":$corpus,\"edge_coverage\":${cov:-0},\"seed\":$SEED,\"sanitizer\":\"$SAN\"}" > "$W/stats.json"
if [ $rc -ne 0 ]; then
  art=$(ls "$W/artifacts"/crash-* "$W/artifacts"/timeout-* "$W/artifacts"/oom-* 2>/dev/null | head -1)
  if [ -z "$art" ]; then echo "INCONCLUSIVE: fuzzer exited $rc without an artifact"; tail -5 "$LOG"; exit 2; fi
  case "$art" in *timeout-*|*oom-*) echo "INCONCLUSIVE: fuzzer reported $(basename $art) (hang/oom is never a violation)"; exit 2;; esac
  mkdir -p "$ROOT/out/replays"; dst="$ROOT/out/replays/$ID-fuzz-$T-$SEED.bin"; cp "$art" "$dst"
  grep -m1 "VIOLATION property=" "$LOG" | cut -c1-400
  echo "VIOLATION property=$ID replay=$dst"
  exit 1
fi
exit 0
