#![no_main]
use libfuzzer_sys::fuzz_target;

tarpc_verif::define_clock_gettime!();

fuzz_target!(|data: &[u8]| {
    tarpc_verif::fuzzing::fuzz_sched_client(data);
});
