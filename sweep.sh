#!/bin/bash
# ./sweep.sh <tier> <seed-from> <seed-to> [ids...]: run checks over a seed range without touching evidence/ (uses a scratch VERIF_ROOT)
# prints only non-clean results. Used to look for false alarms / flakiness on the unchanged tree.
T=${1:-quick}; A=${2:-1}; B=${3:-10}; shift 3 2>/dev/null
IDS=${@:-C01 C02 C03 C04 C05 C06 C07 C08 C09 C10 C11 C12 C13 C14 C15 C16 C18 C19 C20}
SRC=$(cd "$(dirname "$0")" && pwd)
BIN=${VERIF_BIN:-$SRC/harness/target/release/verif}
# always rebuild against /repo's current tree first (seeded/try.sh and mutants/try.sh leave a binary built from the changed tree behind)
(cd "$SRC/harness" && CARGO_NET_OFFLINE=true cargo build --release --offline >/dev/null 2>&1) || { echo "harness does not build"; exit 2; }
W=$(mktemp -d /tmp/sweep.XXXXXX)
cp -r "$SRC/regressions" "$W/"; cp "$SRC/KNOWN_FINDINGS.txt" "$W/"; mkdir -p "$W/evidence" "$W/out"
bad=0
for s in $(seq $A $B); do
  for id in $IDS; do
    out=$(VERIF_ROOT=$W "$BIN" $id --tier $T --seed $s 2>&1); rc=$?
    if [ $rc -ne 0 ]; then bad=$((bad+1)); echo "seed=$s $id rc=$rc"; echo "$out" | grep -E "^(violation|VIOLATION|INCONCLUSIVE|regression|probe)" | head -4 | cut -c1-400; mkdir -p "$SRC/out/sweep"; cp $W/out/replays/$id-* "$SRC/out/sweep/" 2>/dev/null; fi
  done
done
echo "sweep $T seeds $A..$B: $bad non-clean results"
rm -rf "$W"
