#!/bin/bash
# Offline build of the harness (and fuzz targets when present). MANIFEST.setup_cmd.
set -e
cd "$(dirname "$0")"
export CARGO_NET_OFFLINE=true
mkdir -p out evidence
(cd harness && cargo build --release)
# warm the generated-crate target directory used by C17 (dependencies only; the check regenerates sources)
./harness/target/release/verif C17 --tier quick --seed 1 >/dev/null 2>&1 || true
if [ -x fuzz/build.sh ]; then fuzz/build.sh; fi
echo "setup done"
