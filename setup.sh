#!/bin/bash
# Offline build of the harness (and fuzz targets when present). MANIFEST.setup_cmd.
set -e
cd "$(dirname "$0")"
export CARGO_NET_OFFLINE=true
mkdir -p out evidence
(cd harness && cargo build --release)
if [ -x macrogen/setup.sh ]; then macrogen/setup.sh; fi
if [ -x fuzz/build.sh ]; then fuzz/build.sh; fi
echo "setup done"
