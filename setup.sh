#!/bin/bash
# Offline build of the harness (and fuzz targets when present). MANIFEST.setup_cmd.
set -e
cd "$(dirname "$0")"
export CARGO_NET_OFFLINE=true
mkdir -p out evidence
(cd harness && cargo build --release)
# warm the generated-crate target directory used by C17 (dependencies only; the check regenerates sources)
./harness/target/release/verif C17 --tier quick --seed 1 >/dev/null 2>&1 || true
# libFuzzer targets used by the thorough tier (fuzz/run.sh rebuilds them against /repo's current tree on every use)
(cd harness && cargo +nightly fuzz build -s none >/dev/null 2>../out/fuzz-setup.log) || echo "note: fuzz targets did not build at setup (see out/fuzz-setup.log); thorough checks will report INCONCLUSIVE for the fuzz part"
echo "setup done"
