#!/usr/bin/env python3
"""Regenerates MANIFEST.json from the table below. Run after adding a check."""
import json, subprocess
ALL = ["C%02d" % i for i in range(1, 21)]
# id -> (engine, technique, level text, level note, design ref)
BUILT = {
 "C01": ("client", "stateful property-based testing (proptest op sequences over the real client dispatch under an owned scheduler) against a wire reference model",
         "Generated call/reply/abandon/expire histories and schedules; a model of the wire decides which payload each call may return. Exploration, not proof: bounded scenario length, poll-granularity schedules.",
         "Trusts the scripted transport and executor of the harness; virtual time via clock_gettime interposition.", "DESIGN.md §5 C01"),
}
hooks_commits = subprocess.run(["git","-C","/repo","log","--format=%h %s","--grep=^verif:"],capture_output=True,text=True).stdout.strip().splitlines()
checks=[]
for pid in ALL:
    if pid not in BUILT: continue
    eng, tech, text, note, ref = BUILT[pid]
    checks.append({
      "property_id": pid,
      "quick_cmd": f"./check {pid} quick",
      "thorough_cmd": f"./check {pid} thorough",
      "evidence_file": f"/verif/evidence/{pid}.json",
      "replay_cmd_template": f"./check {pid} --replay {{path}}",
      "engine": eng,
      "level_claimed": {"category": "exploration", "text": text, "design_ref": ref},
      "level_note": note,
      "technique": tech,
    })
m = {
 "version": 1,
 "setup_cmd": "./setup.sh",
 "hooks": {
   "guard": "cargo feature `verif` of the tarpc crate (off by default, not part of `full`)",
   "enable": "the harness crate depends on tarpc by path with features [\"full\", \"verif\"]; ./check rebuilds it from /repo's working tree",
   "baseline_off_cmd": "cd /repo && cargo nextest run --workspace --no-fail-fast --offline --test-threads 8",
   "source_commits": [c.split()[0] for c in hooks_commits],
   "add_only": True,
 },
 "engines": [
   {"name": "client", "path": "harness/src/engines/client.rs", "serves_properties": [p for p in BUILT if BUILT[p][0]=="client"], "kind_free_text": "real tarpc client dispatch + handles + caller tasks over a scripted transport, owned scheduler, virtual time"},
 ],
 "checks": checks,
 "not_applicable": [{"property_id": p, "reason": "check not built yet in this round (planned in DESIGN.md §5); not claimed"} for p in ALL if p not in BUILT],
 "notes": "All checks are property-based tests / fuzzers with explicit oracles; see DESIGN.md. Exit codes: 0 held, 1 VIOLATION, 2 inconclusive.",
}
json.dump(m, open("/verif/MANIFEST.json","w"), indent=1)
print("checks:", [c["property_id"] for c in checks])
