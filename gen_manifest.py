#!/usr/bin/env python3
"""Regenerates MANIFEST.json from the table below. Run after adding a check."""
import json, subprocess
ALL = ["C%02d" % i for i in range(1, 21)]
# id -> (engine, technique, level text, level note, design ref)
BUILT = {
 "C02": ("client", "stateful property-based testing under a wake-only owned scheduler; invariant over quiescent states (lost-wake-up enabler rules)",
         "Generated schedules/faults/time advances; a task is polled only if its waker fired, so a Pending without a registered wake-up leaves a call pending at quiescence. Liveness in bounded form.",
         "Quiescence = no woken task after a turn of tokio's time driver; scripted transport wakes exactly on state change.", "DESIGN.md §5 C02"),
 "C03": ("client", "stateful property-based testing with hook-driven interleavings inside the guard's drop; per-id wire automaton + end-state obligation",
         "Abandonment at every stage of a call against every dispatch state, including scheduler steps at the three H1 yield points inside the synchronous drop.",
         "Interleavings inside drop limited to the H1 yield points.", "DESIGN.md §5 C03"),
 "C05": ("client", "property-based testing under virtual time (std Instant + tokio timer wheel in lock-step); metamorphic bounds on expiry time",
         "Deadlines from expired to ~2.1 years, clock steps landing on deadline-1ms/deadline/+1ms; exact 'never early', 2 ms 'must have expired'.",
         "Virtual clock via clock_gettime interposition; spans beyond 2^36 ms excluded (finding F3).", "DESIGN.md §5 C05"),
 "C09": ("client", "fault-injection property-based testing (fail the k-th call of each transport operation) with an outcome-classification oracle",
         "Every transport operation can fail at a generated index with calls in generated stages; oracle checks the reported activity, containment and absence of hangs/panics.",
         "Faults are injected by the scripted transport only (not the OS).", "DESIGN.md §5 C09"),
 "C10": ("client", "stateful property-based testing of shutdown histories; ordering invariant over the transport operation log",
         "Handle drop / peer close at generated points with queued, in-flight, abandoned calls; checks cancels-before-close, no write after close, completion.",
         "Poll-granularity schedules.", "DESIGN.md §5 C10"),
 "C11": ("client", "long-run stateful property-based testing against a wire-derived reference count plus read-only counters (hook H2)",
         "Up to 300 ops per case reusing table slots by every removal route; bound checked at each write, counters at each quiescence, reclamation with the clock stopped.",
         "H2 counters are read-only accessors compiled only with feature verif.", "DESIGN.md §5 C11"),
 "C14": ("client", "property-based testing against a Sink/Stream contract monitor over the logged transport operations, both readiness models",
         "Every start_send/poll_ready/poll_flush/poll_close call is logged by the scripted transport and checked against the Sink contract for generated capacities, budgets and faults.",
         "The scripted transport is maximally permissive outside the stated rules.", "DESIGN.md §5 C14"),
 "C04": ("server", "stateful property-based testing of the real server channel against a reference model of read-and-unanswered ids; handler poll counters",
         "Cancels at every position relative to handler start/completion/response write, unknown and finished ids, with/without request limit; checks frozen handler polls, no response, in-flight count agreement, no collateral aborts. Cascade part: chains of depth 1-3 with the head call abandoned at a generated point.",
         "Finding F6 region (limit, at limit, sink not ready) is steered around and counted.", "DESIGN.md §5 C04"),
 "C06": ("server", "property-based testing under virtual time against per-request expiry bounds and a no-spurious-abort invariant",
         "Concurrent requests with different deadlines, clock steps around each deadline; exact 'never early', 2 ms 'must be gone', completed-in-time implies answered.",
         "Finding F6 region steered around and counted; spans beyond 2^36 ms excluded (F3).", "DESIGN.md §5 C06"),
 "C08": ("server", "stateful property-based testing against a reference model of read-and-unanswered request ids",
         "Fresh / duplicate-in-flight / reused-after-completion ids, cancels, closes, handler completion order, response buffer 1-4; exactly-once offering, at most one response, response only with handler result.",
         "Id reuse after cancel/expiry (outside the stated quantifier) is not generated; histories where an expiry races an id reuse are exempted per id.", "DESIGN.md §5 C08"),
 "C12": ("server", "stateful property-based testing against an interval (lower/upper) reference model of the in-flight count",
         "Bursts, cancel-then-request before one poll, completions in any order, sink blocked; admitted only if lower<L, refused only if upper>=L, refusal = exactly one WouldBlock response and no handler.",
         "Finding F6 region steered around and counted.", "DESIGN.md §5 C12"),
 "C13": ("listener", "stateful property-based testing of the real MaxChannelsPerKey filter against an exact model of live channels per key",
         "Arrival/close/poll sequences over 3 keys and n in 1..3 with a close and a same-key arrival pending at one poll; every poll's yield/shed decision is compared with the model.",
         "Channels are real BaseChannels over an inert transport; TrackedChannel drop = close.", "DESIGN.md §5 C13"),
 "C19": ("hooks", "property-based differential testing: generated hook specs run through tarpc's combinators versus a reference interpreter",
         "Arbitrary nesting of before / before-list / after / before-and-after layers with failing hooks, context shifts and result rewrites; exact event log and result compared.",
         "Intermediate Serve values are type-erased behind a boxed adapter; what a plain After sees of the context is not compared.", "DESIGN.md §5 C19"),
 "C20": ("stubs", "property-based testing of the stub combinators with invariant oracles, plus a real-threads run for the round-robin cursor",
         "Round-robin balance after every call (sequential, concurrently created futures polled in generated order, and 8-16 real threads), consistent-hash determinism/validity under generated hashers, retry protocol against a scripted backend.",
         "Real-thread run checks the visible effect only (no memory-model exploration).", "DESIGN.md §5 C20"),
 "C07": ("chain", "property-based testing of 1-3 hop chains under virtual time with exact metamorphic bounds on the propagated deadline",
         "Real client/server hops over the shipped in-memory channel and the serde transport (JSON, bincode) on byte pipes; transit delays are virtual-clock advances between serialisation and deserialisation; bounds are exact.",
         "Transit delay is modelled as virtual time between start_send and the receiving poll_next; OS sockets are not involved.", "DESIGN.md §5 C07"),
 "C18": ("chain", "property-based testing of 1-3 hop chains with concurrent calls and cancels; equality/inequality relations over recorded trace contexts",
         "Trace id / sampling equalities hop to hop, fresh span ids, cancel carries the request's context, no subscriber and OpenTelemetry layer modes.",
         "Span ids come from tarpc's own RNG; only equality relations are used.", "DESIGN.md §5 C18"),
 "C01": ("client", "stateful property-based testing (proptest op sequences over the real client dispatch under an owned scheduler) against a wire reference model",
         "Generated call/reply/abandon/expire histories and schedules; a model of the wire decides which payload each call may return. Exploration, not proof: bounded scenario length, poll-granularity schedules.",
         "Trusts the scripted transport and executor of the harness; virtual time via clock_gettime interposition.", "DESIGN.md §5 C01"),
}
hooks_commits = subprocess.run(["git","-C","/repo","log","--format=%h %s","--grep=^verif:"],capture_output=True,text=True).stdout.strip().splitlines()
checks=[]
for pid in ALL:
    if pid not in BUILT: continue
    eng, tech, text, note, ref = BUILT[pid]
    checks.append({
      "property_id": pid,
      "quick_cmd": f"./check {pid} quick",
      "thorough_cmd": f"./check {pid} thorough",
      "evidence_file": f"/verif/evidence/{pid}.json",
      "replay_cmd_template": f"./check {pid} --replay {{path}}",
      "engine": eng,
      "level_claimed": {"category": "exploration", "text": text, "design_ref": ref},
      "level_note": note,
      "technique": tech,
    })
m = {
 "version": 1,
 "setup_cmd": "./setup.sh",
 "hooks": {
   "guard": "cargo feature `verif` of the tarpc crate (off by default, not part of `full`)",
   "enable": "the harness crate depends on tarpc by path with features [\"full\", \"verif\"]; ./check rebuilds it from /repo's working tree",
   "baseline_off_cmd": "cd /repo && cargo nextest run --workspace --no-fail-fast --offline --test-threads 8",
   "source_commits": [c.split()[0] for c in hooks_commits],
   "add_only": True,
 },
 "engines": [
   {"name": "client", "path": "harness/src/engines/client.rs", "serves_properties": [p for p in BUILT if BUILT[p][0]=="client"], "kind_free_text": "real tarpc client dispatch + handles + caller tasks over a scripted transport, owned scheduler, virtual time"},
   {"name": "listener", "path": "harness/src/props/c13.rs", "serves_properties": ["C13"], "kind_free_text": "real Incoming::max_channels_per_key over a scripted listener"},
   {"name": "hooks", "path": "harness/src/props/c19.rs", "serves_properties": ["C19"], "kind_free_text": "tarpc request-hook combinators vs reference interpreter"},
   {"name": "stubs", "path": "harness/src/props/c20.rs", "serves_properties": ["C20"], "kind_free_text": "RoundRobin / ConsistentHash / Retry stubs with counting and scripted backends"},
   {"name": "chain", "path": "harness/src/engines/chain.rs", "serves_properties": ["C07","C18","C04"], "kind_free_text": "1-3 real client->server hops in one owned executor over logged shipped transports (in-memory channel, serde JSON/bincode on byte pipes)"},
   {"name": "server", "path": "harness/src/engines/server.rs", "serves_properties": [p for p in BUILT if BUILT[p][0]=="server"] + ["C09","C10","C11","C14"], "kind_free_text": "real BaseChannel / MaxRequests / Requests / execute() over a scripted transport with scripted handlers; environment plays the client"},
 ],
 "checks": checks,
 "not_applicable": [{"property_id": p, "reason": "check not built yet in this round (planned in DESIGN.md §5); not claimed"} for p in ALL if p not in BUILT],
 "notes": "All checks are property-based tests / fuzzers with explicit oracles; see DESIGN.md. Exit codes: 0 held, 1 VIOLATION, 2 inconclusive.",
}
json.dump(m, open("/verif/MANIFEST.json","w"), indent=1)
print("checks:", [c["property_id"] for c in checks])
